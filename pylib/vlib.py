"""Shared machinery of /verif/check: scratch handling, overlay builds, part runners,
evidence merging, known-findings matching."""
import os, sys, json, time, subprocess, shutil, glob, re, hashlib

VERIF = os.path.dirname(os.path.dirname(os.path.abspath(__file__)))
MODPATH = 'github.com/whawty/auth'


class ToolError(Exception):
    pass


def goenv():
    e = dict(os.environ)
    e.update({'GOPROXY': 'off', 'GOSUMDB': 'off', 'GOTOOLCHAIN': 'local', 'GOFLAGS': '',
              'CGO_ENABLED': '0'})
    e.pop('WHAWTY_AUTH_DEBUG', None)
    return e


class Ctx:
    def __init__(self, pid, tier):
        self.pid = pid
        self.tier = tier
        self.repo = os.path.abspath(os.environ.get('VERIF_REPO', '/repo'))
        self.seed = int(os.environ.get('VERIF_SEED', '0') or 0)
        base = '/dev/shm' if os.path.isdir('/dev/shm') else '/var/tmp'
        self.scratch = os.path.join(base, 'verif.%d' % os.getpid())
        os.makedirs(self.scratch, exist_ok=True)
        self.t0 = time.time()
        self.parts = []          # list of (partname, evidence dict)
        self.violations = []     # list of (key, replay, desc)
        self.replay_dir = os.path.join(VERIF, 'replay')
        os.makedirs(self.replay_dir, exist_ok=True)
        self.ncpu = os.cpu_count() or 4
        self.replay_key = None

    def log(self, msg):
        print('[check %s %s +%.0fs] %s' % (self.pid, self.tier, time.time() - self.t0, msg), flush=True)

    def cleanup(self):
        shutil.rmtree(self.scratch, ignore_errors=True)

    def env(self, part, extra=None):
        e = goenv()
        e['VERIF_TIER'] = self.tier
        e['VERIF_SEED'] = str(self.seed)
        e['VERIF_REPO'] = self.repo
        e['VERIF_DIR'] = VERIF
        e['VERIF_SCRATCH'] = self.scratch
        e['VERIF_REPLAY_DIR'] = self.replay_dir
        e['VERIF_EVIDENCE_PART'] = os.path.join(self.scratch, 'ev-%s.json' % part)
        e['VERIF_NCPU'] = str(self.ncpu)
        e['VERIF_PART_NAME'] = part
        if extra:
            e.update(extra)
        return e

    # ---- builds ---------------------------------------------------------------------
    def overlay(self, name, mapping):
        """mapping: path-inside-repo -> real file.  Returns overlay json path."""
        rep = {}
        for k, v in mapping.items():
            rep[os.path.join(self.repo, k)] = v
        p = os.path.join(self.scratch, 'overlay-%s.json' % name)
        with open(p, 'w') as f:
            json.dump({'Replace': rep}, f)
        return p

    def base_mapping(self):
        m = {}
        for f in glob.glob(os.path.join(VERIF, 'harness/ev/*.go')):
            m['internal/verifev/' + os.path.basename(f)] = f
        for f in glob.glob(os.path.join(VERIF, 'harness/x/*.go')):
            m['internal/verifx/' + os.path.basename(f)] = f
        return m

    def mount_dir(self, m, srcdir, dst):
        n = 0
        for f in sorted(glob.glob(os.path.join(VERIF, srcdir, '*.go'))):
            m[os.path.join(dst, os.path.basename(f))] = f
            n += 1
        if n == 0:
            raise ToolError('no go files in ' + srcdir)

    def run_build(self, cmd, what):
        t = time.time()
        cgo = '1' if '-race' in cmd else os.environ.get('VERIF_CGO', '0')
        p = subprocess.run(cmd, cwd=self.repo, env=goenv() | {'CGO_ENABLED': cgo},
                           stdout=subprocess.PIPE, stderr=subprocess.STDOUT, text=True)
        if p.returncode != 0:
            raise ToolError('build of %s failed:\n%s' % (what, p.stdout[-6000:]))
        self.log('built %s in %.1fs' % (what, time.time() - t))

    def build_agent(self):
        out = os.path.join(self.scratch, 'whawty-auth')
        if not os.path.exists(out):
            self.run_build(['go', 'build', '-o', out, './cmd/whawty-auth'], 'agent binary')
        return out

    def build_bin(self, name, srcdir, extra_mapping=None, race=False):
        """Mount /verif/<srcdir>/*.go as package main at internal/verifh/<name> and build."""
        m = self.base_mapping()
        self.mount_dir(m, srcdir, 'internal/verifh/' + name)
        if extra_mapping:
            m.update(extra_mapping)
        ov = self.overlay(name, m)
        out = os.path.join(self.scratch, 'bin-' + name)
        cmd = ['go', 'build', '-overlay', ov, '-o', out]
        if race:
            cmd.append('-race')
        cmd.append('./internal/verifh/' + name)
        self.run_build(cmd, name)
        return out

    def build_test(self, name, pkg, test_srcdirs, extra_mapping=None, race=False, tags=None):
        """Add /verif/<srcdir>/*_test.go files to existing repo package pkg; go test -c."""
        m = self.base_mapping()
        for srcdir in test_srcdirs:
            self.mount_dir(m, srcdir, pkg)
        if extra_mapping:
            m.update(extra_mapping)
        ov = self.overlay(name, m)
        out = os.path.join(self.scratch, 'test-' + name)
        cmd = ['go', 'test', '-overlay', ov, '-vet=off', '-c', '-o', out]
        if race:
            cmd.append('-race')
        if tags:
            cmd += ['-tags', tags]
        cmd.append('./' + pkg)
        self.run_build(cmd, name)
        return out

    # ---- running parts ---------------------------------------------------------------
    def run_part(self, part, cmd, extra_env=None, timeout=None, cwd=None):
        env = self.env(part, extra_env)
        evp = env['VERIF_EVIDENCE_PART']
        if os.path.exists(evp):
            os.unlink(evp)
        t = time.time()
        try:
            p = subprocess.run(cmd, env=env, cwd=cwd or self.scratch, stdout=subprocess.PIPE,
                               stderr=subprocess.STDOUT, text=True, errors='replace', timeout=timeout)
        except subprocess.TimeoutExpired as e:
            raise ToolError('part %s timed out after %ss' % (part, timeout))
        out = p.stdout
        nviol = 0
        for line in out.splitlines():
            if line.startswith('V|'):
                f = line.split('|', 3)
                if len(f) == 4:
                    self.violations.append((f[1], f[2], f[3]))
                    nviol += 1
        if 'WARNING: DATA RACE' in out:
            # report of the Go race detector (free-running -race twin)
            i = out.index('WARNING: DATA RACE')
            rep = out[i:i + 3000]
            fn = re.search(r'\n\s+(github.com/whawty/auth/[^\s(]+)', rep)
            key = 'data-race:' + (fn.group(1).split('/')[-1] if fn else 'unknown')
            path = os.path.join(self.replay_dir, '%s-%s-race.json' % (self.pid, part))
            with open(path, 'w') as f:
                json.dump({'property': self.pid, 'part': part, 'key': key, 'description': rep}, f, indent=1)
            self.violations.append((key, path, 'the Go race detector reports a data race: ' + ' '.join(rep.split())[:500]))
            if not os.path.exists(evp):
                with open(evp, 'w') as f:
                    json.dump({'coverage': {'evaluations': 1, 'distinct_nontrivial': 0, 'rule': 'race twin aborted by a race report', 'samples': [rep[:300]]}}, f)
        elif p.returncode != 0:
            tail = '\n'.join(out.splitlines()[-60:])
            raise ToolError('part %s exited with %d:\n%s' % (part, p.returncode, tail))
        if not os.path.exists(evp):
            raise ToolError('part %s wrote no evidence\n%s' % (part, out[-3000:]))
        with open(evp) as f:
            ev = json.load(f)
        self.parts.append((part, ev))
        if os.environ.get('VERIF_VERBOSE'):
            sys.stdout.write(out)
        self.log('ran %s in %.1fs: %s violations=%d' % (
            part, time.time() - t,
            ' '.join('%s=%s' % (k, v) for k, v in ev['coverage'].items() if isinstance(v, int) and not isinstance(v, bool)),
            nviol))
        return ev, out

    def add_part(self, part, ev):
        self.parts.append((part, ev))

    # ---- finishing -------------------------------------------------------------------
    def finish(self, spec, partial=False):
        known = load_known()
        cov = {}
        samples = []
        rules = []
        notes = []
        assumptions = list(spec.get('assumptions', []))
        exhaustive = True
        partcov = {}
        for name, ev in self.parts:
            c = ev.get('coverage', {})
            partcov[name] = {k: v for k, v in c.items() if k not in ('samples',)}
            for k, v in c.items():
                if isinstance(v, bool):
                    continue
                if isinstance(v, int):
                    cov[k] = cov.get(k, 0) + v
            for s in (c.get('samples') or [])[:4]:
                samples.append({'part': name, 'case': s})
            if c.get('rule'):
                rules.append('[%s] %s' % (name, c['rule']))
            for n in c.get('notes', []):
                notes.append('[%s] %s' % (name, n))
            if c.get('exhaustive') is False:
                exhaustive = False
            for a in ev.get('assumptions') or []:
                if a not in assumptions:
                    assumptions.append(a)
        cov.setdefault('evaluations', 0)
        cov.setdefault('distinct_nontrivial', 0)
        cov['rule'] = ' || '.join(rules)
        cov['samples'] = samples[:12]
        cov['exhaustive'] = exhaustive
        cov['parts'] = partcov
        if notes:
            cov['notes'] = notes
        # violations vs. known findings
        rc = 0
        unlisted = []
        listed = []
        seen = set()
        for key, replay, desc in self.violations:
            if key in seen:
                continue
            seen.add(key)
            if getattr(self, 'replay_key', None) and key != self.replay_key:
                continue
            kf = known.get((self.pid, key))
            if kf is not None:
                listed.append((key, kf))
            else:
                unlisted.append((key, replay, desc))
        for key, what in listed:
            print('KNOWN-FINDING: property=%s %s' % (self.pid, what))
        for key, replay, desc in unlisted:
            print('VIOLATION property=%s replay=%s' % (self.pid, replay))
            print('  key=%s :: %s' % (key, desc))
            rc = 1
        cov['known_findings_seen'] = [k for k, _ in listed]
        ev = {
            'property_id': self.pid,
            'tier': self.tier,
            'seed': self.seed,
            'level': spec['level'],
            'coverage': cov,
            'assumptions': assumptions,
            'wall_s': round(time.time() - self.t0, 2),
            'violations': len(unlisted),
        }
        if not partial:
            os.makedirs(os.path.join(VERIF, 'evidence'), exist_ok=True)
            with open(os.path.join(VERIF, 'evidence', self.pid + '.json'), 'w') as f:
                json.dump(ev, f, indent=1, sort_keys=True)
                f.write('\n')
        self.log('finished: evaluations=%s distinct=%s states=%s transitions=%s exhaustive=%s violations=%d known=%d' % (
            cov.get('evaluations'), cov.get('distinct_nontrivial'), cov.get('states'), cov.get('transitions'),
            exhaustive, len(unlisted), len(listed)))
        return rc


def load_known():
    """known_findings.txt lines:
         finding: property=C15 key=<key> <what fails>
         fixed: property=C03 <commit> <what failed>       (suppresses nothing)
    """
    res = {}
    p = os.path.join(VERIF, 'known_findings.txt')
    if not os.path.exists(p):
        return res
    for line in open(p):
        line = line.strip()
        m = re.match(r'^finding:\s+property=(\S+)\s+key=(\S+)\s+(.*)$', line)
        if m:
            res[(m.group(1), m.group(2))] = m.group(3)
    return res


# ---- generic part classes ------------------------------------------------------------
class Part:
    thorough_only = False

    def __init__(self, name, thorough_only=False):
        self.name = name
        self.thorough_only = thorough_only


class GoBin(Part):
    """A `package main` harness mounted under internal/verifh/<name>."""

    def __init__(self, name, srcdir, args=None, thorough_only=False, env=None, race=False, agent=False):
        super().__init__(name, thorough_only)
        self.agent = agent
        self.srcdir = srcdir
        self.args = args or []
        self.env = env or {}
        self.race = race

    def warm(self, ctx):
        ctx.build_bin(self.name, self.srcdir, race=self.race)
        if self.agent:
            ctx.build_agent()

    def run(self, ctx, replay):
        b = ctx.build_bin(self.name, self.srcdir, race=self.race)
        extra = dict(self.env)
        if self.agent:
            extra['VERIF_AGENT_BIN'] = ctx.build_agent()
        if replay:
            extra['VERIF_REPLAY'] = os.path.abspath(replay)
        ctx.run_part(self.name, [b] + self.args, extra)


class GoTest(Part):
    """_test.go harness files added to an existing package of the repo."""

    def __init__(self, name, pkg, srcdirs, run, thorough_only=False, env=None, race=False):
        super().__init__(name, thorough_only)
        self.pkg = pkg
        self.srcdirs = srcdirs
        self.runpat = run
        self.env = env or {}
        self.race = race

    def warm(self, ctx):
        ctx.build_test(self.name, self.pkg, self.srcdirs, race=self.race)

    def run(self, ctx, replay):
        b = ctx.build_test(self.name, self.pkg, self.srcdirs, race=self.race)
        extra = dict(self.env)
        if replay:
            extra['VERIF_REPLAY'] = os.path.abspath(replay)
        ctx.run_part(self.name, [b, '-test.run', self.runpat, '-test.timeout', '0', '-test.count', '1'], extra)


class TracePart(Part):
    """A check of the tracefs engine (Python: strace + FS model + crash/fault enumeration)."""

    def __init__(self, name, func, thorough_only=False):
        super().__init__(name, thorough_only)
        self.func = func

    def warm(self, ctx):
        ctx.build_bin('drv', 'harness/drv')
        ctx.build_bin('oracle', 'harness/oracle')

    def run(self, ctx, replay):
        drv = ctx.build_bin('drv', 'harness/drv')
        oracle = ctx.build_bin('oracle', 'harness/oracle')
        tdir = os.path.join(VERIF, 'tracefs')
        if tdir not in sys.path:
            sys.path.insert(0, tdir)
        import checks
        env = checks.Env(ctx, ctx.pid, self.name, drv, oracle)
        t = time.time()
        try:
            ev = getattr(checks, self.func)(env, ctx.tier == 'thorough')
        except checks.TraceError as e:
            raise ToolError('tracefs part %s: %s' % (self.name, e))
        ctx.add_part(self.name, ev)
        ctx.log('ran %s in %.1fs: %s' % (self.name, time.time() - t, ' '.join('%s=%s' % kv for kv in ev['coverage'].items() if isinstance(kv[1], int) and not isinstance(kv[1], bool))))


class PamxPart(Part):
    """Environment-model exploration of pam/pam_whawty.c (compiled unchanged with ASan/UBSan,
    system calls wrapped) - /verif/pamx/harness.c.  mode: explore | vectors | replies"""

    WRAP = '-Wl,--wrap=socket,--wrap=connect,--wrap=select,--wrap=read,--wrap=write,--wrap=send,--wrap=recv,--wrap=close'

    def __init__(self, name, mode='explore', producer=None, thorough_only=False):
        super().__init__(name, thorough_only)
        self.mode = mode
        self.producer = producer   # name of the file (in scratch) written by an earlier part

    def build(self, ctx):
        out = os.path.join(ctx.scratch, 'pamx')
        if os.path.exists(out):
            return out
        t = time.time()
        cmd = ['clang', '-g', '-O1', '-fsanitize=address,undefined', '-fno-sanitize-recover=undefined', '-fno-omit-frame-pointer',
               '-I' + os.path.join(VERIF, 'pamx/stub'), '-w', '-o', out,
               os.path.join(VERIF, 'pamx/harness.c'), os.path.join(ctx.repo, 'pam/pam_whawty.c'), self.WRAP]
        p = subprocess.run(cmd, stdout=subprocess.PIPE, stderr=subprocess.STDOUT, text=True)
        if p.returncode != 0:
            raise ToolError('building the PAM harness failed:\n' + p.stdout[-3000:])
        ctx.log('built pamx in %.1fs' % (time.time() - t))
        return out

    def warm(self, ctx):
        self.build(ctx)

    def run(self, ctx, replay):
        b = self.build(ctx)
        env = dict(os.environ, ASAN_OPTIONS='detect_leaks=0:abort_on_error=0', UBSAN_OPTIONS='print_stacktrace=1')
        t = time.time()
        outs = []
        if replay:
            rp = json.load(open(replay))['replay']
            p = subprocess.run([b, '--case', str(rp['case']), '--replay', rp['choices'] or '0'], env=env, stdout=subprocess.PIPE, stderr=subprocess.STDOUT, text=True, errors='replace')
            sys.stdout.write(p.stdout[-3000:])
            outs.append(p)
        elif self.mode == 'explore':
            from concurrent.futures import ThreadPoolExecutor
            n = max(1, ctx.ncpu)
            bound = '3' if ctx.tier == 'thorough' else '2'
            args = [b, '--bound', bound] + (['--thorough'] if ctx.tier == 'thorough' else [])

            def one(i):
                return subprocess.run(args + ['--shard', str(i), str(n)], env=env, stdout=subprocess.PIPE, stderr=subprocess.STDOUT, text=True, errors='replace')
            with ThreadPoolExecutor(max_workers=n) as ex:
                outs = list(ex.map(one, range(n)))
        else:
            f = os.path.join(ctx.scratch, self.producer)
            if not os.path.exists(f):
                raise ToolError('pamx %s: input %s was not produced by the preceding part' % (self.mode, self.producer))
            outs.append(subprocess.run([b, '--' + self.mode, f], env=env, stdout=subprocess.PIPE, stderr=subprocess.STDOUT, text=True, errors='replace'))
        cov = {'evaluations': 0, 'cases': 0}
        keys = {}
        outcomes = set()
        samples = []
        for p in outs:
            stats = [l for l in p.stdout.splitlines() if l.startswith('STATS ')]
            if p.returncode != 0 or not stats:
                # a sanitizer report or crash of the module is a finding of its own
                tail = p.stdout[-2500:]
                if 'Sanitizer' in p.stdout or 'runtime error' in p.stdout:
                    key = 'memory-error'
                    path = os.path.join(ctx.replay_dir, '%s-%s-sanitizer.json' % (ctx.pid, self.name))
                    with open(path, 'w') as f:
                        json.dump({'property': ctx.pid, 'key': key, 'description': tail}, f)
                    ctx.violations.append((key, path, 'sanitizer report while running the PAM module: ' + ' '.join(tail.split())[:600]))
                    continue
                raise ToolError('pamx exited with %d:\n%s' % (p.returncode, tail))
            for l in p.stdout.splitlines():
                if l.startswith('V|'):
                    f = l.split('|')
                    if len(f) < 4:
                        continue
                    key, desc, choices = f[1], f[2], f[3]
                    if key in keys:
                        keys[key] += 1
                        continue
                    keys[key] = 1
                    m = re.match(r'(?:case|vector|server reply) (\d+)', desc)
                    h = hashlib.sha256(key.encode()).hexdigest()[:10]
                    path = os.path.join(ctx.replay_dir, '%s-%s-%s.json' % (ctx.pid, self.name, h))
                    with open(path, 'w') as fo:
                        json.dump({'property': ctx.pid, 'part': self.name, 'key': key, 'description': desc,
                                   'replay': {'case': int(m.group(1)) if m else -1, 'choices': choices, 'mode': self.mode}}, fo, indent=1)
                    ctx.violations.append((key, path, desc[:600]))
            kv = dict(x.split('=', 1) for x in stats[-1].split()[1:] if '=' in x)
            cov['evaluations'] += int(kv.get('executions', 0))
            cov['cases'] += int(kv.get('cases', 0))
            for o in kv.get('outcomes', '').split(','):
                if o:
                    outcomes.add(o.split(':')[0])
                    for bit in range(8):
                        if int(o.split(':')[1], 16) >> bit & 1:
                            outcomes.add('%s/dev%d' % (o.split(':')[0], bit))
        cov['distinct_nontrivial'] = max(len(outcomes), min(cov['cases'], 2) if cov['cases'] else 0)
        cov['violation_counts'] = keys
        if self.mode == 'explore':
            cov['rule'] = ('cases: every server script (12 bodies + 256/600-byte bodies x 10 announced lengths x every cut position x close/stall x errno on entry {0,EINTR}), '
                           'users/passwords of 0/1/255/256/257/5000 bytes x 16 option subsets x AUTHTOK x 4 prompt answers x OK/NO, option-parsing cases; per case every sequence of environment answers '
                           '(socket, connect, select ready/timeout/EINTR, write all/1 byte/EPIPE/EINTR, read all/1 byte/EOF/ECONNRESET/EINTR) with at most 2 (thorough 3) deviations from the cooperative answer '
                           '(one less for replies/fields longer than 16/300 bytes); distinct = distinct (PAM return code, number of deviations) classes')
            samples = [{'case': 'user=bob pw=secret reply announced length 2 body "OK", delivered completely, server closes', 'choices': 'all cooperative', 'expected': 'PAM_SUCCESS'},
                       {'case': 'same, server closes after 3 of 4 bytes', 'expected': 'PAM_AUTHINFO_UNAVAIL'}]
        elif self.mode == 'vectors':
            cov['rule'] = 'every (user, password) vector exported by the Go codec harness: bytes written by the compiled PAM module vs sasl.Request.Marshal() of the clipped fields'
            samples = [{'vectors_file': self.producer}]
        else:
            cov['rule'] = 'every reply emitted by the real Go server in the C05 enumeration is fed to the compiled PAM module (cooperative environment): PAM_SUCCESS iff the callback approved'
            samples = [{'replies_file': self.producer}]
        cov['samples'] = samples
        cov['exhaustive'] = True
        ctx.add_part(self.name, {'coverage': cov, 'assumptions': [
            'environment model: select failing with EBADF/EINVAL/ENOMEM is not something a peer can cause and is excluded',
            'PAM framework functions are stubs (pam_get_user/get_item/set_item/prompt/vsyslog) answering from the case description']})
        ctx.log('ran %s in %.1fs: executions=%d cases=%d violation kinds=%s' % (self.name, time.time() - t, cov['evaluations'], cov['cases'], keys))


class BindPart(Part):
    """Binding evidence for mcrewrite + shims: a battery of sequential scenarios is run on the
    rewritten build (under the scheduler) and on the plain build; all observable results
    must agree (a disagreement is a tool error)."""

    def __init__(self, name, prop, rewrite_cfg, seq_cfg):
        super().__init__(name)
        self.prop, self.rewrite_cfg, self.seq_cfg = prop, rewrite_cfg, seq_cfg

    def parts(self):
        a = McPart(self.name + '-mc', self.prop, 'cmd/whawty-auth', ['harness/agentmc', 'harness/agentbind/shared', 'harness/agentbind/mc'], self.rewrite_cfg,
                   extra_rewrites=[('store', {'fileops': True})])
        b = McPart(self.name + '-plain', self.prop, 'cmd/whawty-auth', ['harness/agentbind/shared', 'harness/agentbind/plain'], self.seq_cfg)
        return a, b

    def warm(self, ctx):
        for p in self.parts():
            p.build(ctx)

    def run(self, ctx, replay):
        a, b = self.parts()
        res = {}
        for part, test in ((a, '^TestBindMC$'), (b, '^TestBindPlain$')):
            binp = part.build(ctx)
            ev, out = ctx.run_part(part.name, [binp, '-test.run', test, '-test.timeout', '0', '-test.count', '1'], {'VERIF_BIND_PROP': self.prop, 'GOMAXPROCS': '2'})
            ctx.parts.pop()
            res[part.name] = sorted(l for l in out.splitlines() if l.startswith('BIND '))
        la, lb = res[a.name], res[b.name]
        if la != lb or not la:
            diff = [x for x in la if x not in lb][:5] + ['---'] + [x for x in lb if x not in la][:5]
            raise ToolError('binding battery: rewritten and plain build disagree (the rewriter/shims misrepresent the code):\n' + '\n'.join(diff))
        ctx.add_part(self.name, {'coverage': {
            'evaluations': len(la), 'traces_validated_against_impl': len(la), 'distinct_nontrivial': len(set(l.split()[1] for l in la)),
            'rule': 'binding battery: %d observations (every operation result + final directory digests of 5 sequential scenarios: management, local upgrade under two defaults, policy, reload) agree between the mcrewrite build under the scheduler and the plain build' % len(la),
            'samples': la[:3], 'exhaustive': True}})
        ctx.log('binding battery: %d observations agree between rewritten and plain build' % len(la))


class RwTest(Part):
    """In-package sequential harness (go test) over a partially rewritten package
    (import swaps only, e.g. the virtual clock); no scheduler involved."""

    def __init__(self, name, pkg, harness_dirs, rewrite_cfg, run, thorough_only=False, env=None, agent=False, race=False):
        super().__init__(name, thorough_only)
        self.pkg, self.harness_dirs, self.rewrite_cfg, self.runpat = pkg, harness_dirs, rewrite_cfg, run
        self.env = env or {}
        self.agent = agent
        self.race = race

    def build(self, ctx):
        mp = McPart(self.name, '', self.pkg, self.harness_dirs, self.rewrite_cfg)
        mp.race = self.race
        return mp.build(ctx)

    def warm(self, ctx):
        self.build(ctx)
        if self.agent:
            ctx.build_agent()

    def run(self, ctx, replay):
        b = self.build(ctx)
        extra = dict(self.env)
        if self.agent:
            extra['VERIF_AGENT_BIN'] = ctx.build_agent()
        if replay:
            extra['VERIF_REPLAY'] = os.path.abspath(replay)
        ctx.run_part(self.name, [b, '-test.run', self.runpat, '-test.timeout', '0', '-test.count', '1'], extra)


class McPart(Part):
    """Exploration of a package rewritten by mcrewrite under the controlled scheduler.
    Scenarios are distributed over worker processes (one scheduler per process)."""

    def __init__(self, name, prop, pkg, harness_dirs, rewrite_cfg, thorough_only=False,
                 deadline_quick=240, deadline_thorough=600, extra_rewrites=None):
        super().__init__(name, thorough_only)
        self.extra_rewrites = extra_rewrites or []
        self.prop = prop
        self.pkg = pkg
        self.harness_dirs = harness_dirs
        self.rewrite_cfg = rewrite_cfg
        self.deadline = {'quick': deadline_quick, 'thorough': deadline_thorough}

    def build(self, ctx):
        tool = os.path.join(ctx.scratch, 'mcrewrite')
        if not os.path.exists(tool):
            t = time.time()
            p = subprocess.run(['go', 'build', '-o', tool, '.'], cwd=os.path.join(VERIF, 'tools/mcrewrite'),
                               env=goenv(), stdout=subprocess.PIPE, stderr=subprocess.STDOUT, text=True)
            if p.returncode != 0:
                raise ToolError('building mcrewrite failed:\n' + p.stdout)
            ctx.log('built mcrewrite in %.1fs' % (time.time() - t))
        out = os.path.join(ctx.scratch, 'rw-' + self.name)
        cfgp = os.path.join(ctx.scratch, 'rwcfg-%s.json' % self.name)
        with open(cfgp, 'w') as f:
            json.dump(self.rewrite_cfg, f)
        t = time.time()
        p = subprocess.run([tool, '-dir', os.path.join(ctx.repo, self.pkg), '-out', out, '-config', cfgp],
                           cwd=ctx.repo, env=goenv(), stdout=subprocess.PIPE, stderr=subprocess.PIPE, text=True)
        if p.returncode != 0:
            raise ToolError('mcrewrite failed on %s:\n%s' % (self.pkg, p.stderr[-4000:]))
        ctx.log('rewrote %s in %.1fs' % (self.pkg, time.time() - t))
        mapping = json.loads(p.stdout)
        for xpkg, xcfg in self.extra_rewrites:
            xout = os.path.join(ctx.scratch, 'rw-%s-%s' % (self.name, xpkg.replace('/', '_')))
            xcfgp = os.path.join(ctx.scratch, 'rwcfg-%s-%s.json' % (self.name, xpkg.replace('/', '_')))
            with open(xcfgp, 'w') as f:
                json.dump(xcfg, f)
            px = subprocess.run([tool, '-dir', os.path.join(ctx.repo, xpkg), '-out', xout, '-config', xcfgp],
                                cwd=ctx.repo, env=goenv(), stdout=subprocess.PIPE, stderr=subprocess.PIPE, text=True)
            if px.returncode != 0:
                raise ToolError('mcrewrite failed on %s:\n%s' % (xpkg, px.stderr[-4000:]))
            mapping.update(json.loads(px.stdout))
        m = ctx.base_mapping()
        for orig, new in mapping.items():
            m[os.path.relpath(orig, ctx.repo)] = new
        for sub in ('', 'vtime', 'vsignal', 'vexec', 'vhttp', 'vsync'):
            for f in glob.glob(os.path.join(VERIF, 'mc', sub, '*.go')):
                if f.endswith('_test.go'):
                    continue
                m[os.path.join('internal/verifmc', sub, os.path.basename(f))] = f
        return ctx.build_test(self.name, self.pkg, self.harness_dirs, extra_mapping=m, race=getattr(self, 'race', False))

    def warm(self, ctx):
        self.build(ctx)

    def run(self, ctx, replay):
        b = self.build(ctx)
        base_env = {'VERIF_MC_PROP': self.prop, 'VERIF_MC_PART': self.name}
        args = [b, '-test.run', '^TestMC$', '-test.timeout', '0', '-test.count', '1']
        if replay:
            e = ctx.env(self.name, base_env | {'VERIF_REPLAY': os.path.abspath(replay)})
            p = subprocess.run(args, env=e, cwd=ctx.scratch, stdout=subprocess.PIPE, stderr=subprocess.STDOUT, text=True)
            sys.stdout.write(p.stdout)
            for line in p.stdout.splitlines():
                if line.startswith('V|'):
                    f = line.split('|', 3)
                    ctx.violations.append((f[1], f[2], f[3]))
            ctx.add_part(self.name, {'coverage': {'evaluations': 1, 'rule': 'replay of one recorded schedule', 'samples': [replay]}})
            return
        e = ctx.env(self.name, base_env | {'VERIF_MC_SCENARIO': 'list'})
        p = subprocess.run(args, env=e, cwd=ctx.scratch, stdout=subprocess.PIPE, stderr=subprocess.STDOUT, text=True)
        scen = [l.split()[1:3] for l in p.stdout.splitlines() if l.startswith('SCENARIO ')]
        if p.returncode != 0 or not scen:
            raise ToolError('cannot list scenarios:\n' + p.stdout[-3000:])
        only = os.environ.get('VERIF_MC_ONLY')
        if only:
            scen = [s for s in scen if only in s[1]]
        ctx.log('%d scenarios' % len(scen))
        from concurrent.futures import ThreadPoolExecutor
        dl = self.deadline[ctx.tier]

        def one(sc):
            idx, nm = sc
            pname = '%s-%s' % (self.name, idx)
            env = ctx.env(pname, base_env | {'VERIF_MC_SCENARIO': idx, 'VERIF_MC_DEADLINE_S': str(dl), 'GOMAXPROCS': '1'})
            t = time.time()
            pr = subprocess.run(args, env=env, cwd=ctx.scratch, stdout=subprocess.PIPE, stderr=subprocess.STDOUT, text=True, errors='replace')
            return sc, pname, env['VERIF_EVIDENCE_PART'], pr, time.time() - t

        with ThreadPoolExecutor(max_workers=max(1, ctx.ncpu - 1)) as ex:
            results = list(ex.map(one, scen))
        merged = {'evaluations': 0, 'transitions': 0, 'states': 0, 'traces_validated_against_impl': 0, 'distinct_nontrivial': 0}
        samples, notes, rules = [], [], []
        exhaustive = True
        for sc, pname, evp, pr, dt in results:
            for line in pr.stdout.splitlines():
                if line.startswith('V|'):
                    f = line.split('|', 3)
                    if len(f) == 4:
                        ctx.violations.append((f[1], f[2], f[3]))
                if line.startswith('MC ') and os.environ.get('VERIF_VERBOSE'):
                    print(line)
            if os.environ.get('VERIF_VERBOSE'):
                print('SCENARIO-TIME %s %.1fs' % (sc[1], dt))
            if pr.returncode != 0 or not os.path.exists(evp):
                raise ToolError('scenario %s failed (exit %d):\n%s' % (sc[1], pr.returncode, '\n'.join(pr.stdout.splitlines()[-40:])))
            ev = json.load(open(evp))
            c = ev['coverage']
            for k in merged:
                merged[k] += int(c.get(k, 0))
            samples += (c.get('samples') or [])[:1]
            notes += c.get('notes', [])
            rules.append(c.get('rule', ''))
            if c.get('exhaustive') is False:
                exhaustive = False
        cov = dict(merged)
        cov['scenarios'] = len(scen)
        cov['samples'] = samples[:6]
        cov['rule'] = 'for each of %d scenarios: %s' % (len(scen), rules[0][:900] if rules else '')
        cov['exhaustive'] = exhaustive
        if notes:
            cov['notes'] = notes[:40]
        ctx.add_part(self.name, {'coverage': cov, 'assumptions': [
            'schedules are explored at channel-operation granularity under sequential consistency; data races are left to the separate free-running -race pass',
            'the rewritten package (mcrewrite output) behaves like the original: checked by the binding battery (plain vs. rewritten build)']})
        ctx.log('mc part %s: %s' % (self.name, ' '.join('%s=%s' % kv for kv in merged.items())))
