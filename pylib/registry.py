"""Registry: which parts make up each property's check (see DESIGN.md section 4)."""
from vlib import GoBin, GoTest, McPart

MC = 'github.com/whawty/auth/internal/verifmc'
AGENT_RW = {'imports': {
    'store.go': {'net/http': MC + '/vhttp', 'os/signal': MC + '/vsignal', 'time': MC + '/vtime'},
    'hooks.go': {'os/exec': MC + '/vexec', 'time': MC + '/vtime'},
    '*': {'time': MC + '/vtime'}}}


ENGINES = [
    {'name': 'mc', 'path': 'mc tools/mcrewrite harness/agentmc', 'serves_properties': ['C10', 'C11'],
     'kind_free_text': 'hand-written controlled scheduler + stateless/state-pruned DFS explorer for Go channel code, bound to the real source by an AST rewriter applied through go build -overlay'},
    {'name': 'seqx', 'path': 'harness/c01 harness/x', 'serves_properties': ['C01'],
     'kind_free_text': 'explicit-state BFS over operation sequences on the real store.Dir with a reference model (hand-written, Go)'},
]

NOT_CLAIMED = {}

CHECKS = {
    'C01': {
        'level': 'model_checking',
        'engine': 'seqx',
        'technique': 'explicit-state BFS to closure over store operation sequences vs. reference model; exhaustive near-miss password enumeration',
        'text': 'Every add/update/set-admin/remove with every argument of the alphabet is executed from every reachable model state '
                '(full closure, not sampled) on the real store.Dir, and all observers are compared with a reference map after every transition; '
                'near-miss passwords are enumerated exhaustively per base password and parameter set.',
        'note': 'Small alphabets (2 users, <=5 passwords, 3 cheap parameter sets) stand for all; sequential execution only; the reference model is the property statement.',
        'parts': [GoBin('seqx', 'harness/c01')],
    },
    'C11': {
        'level': 'model_checking',
        'engine': 'mc',
        'technique': 'exhaustive schedule exploration of the rewritten agent (state-pruned full reachability + deviation-bounded DFS); per-execution exhaustive linearizability search against a sequential store model incl. final-store read-out',
        'text': 'Every interleaving of 2-4 clients x 1-2 operations on overlapping users (Store interface, SASL callback, LDAP bind; upgrades off and local) is executed on the real dispatcher; each complete history must have a sequential order consistent with real time that explains every response and the final store directory.',
        'note': 'Histories of at most 8 operations; channel-level scheduling points; sequential reference model = property statement; data races left to the -race twin.',
        'parts': [McPart('mc', 'C11', 'cmd/whawty-auth', ['harness/agentmc'], AGENT_RW)],
    },
    'C10': {
        'level': 'model_checking',
        'engine': 'mc',
        'technique': 'stateless + state-pruned exhaustive schedule exploration of the real (mechanically rewritten) agent under a controlled scheduler; deadlock oracle',
        'text': 'All interleavings (full reachability with state-key pruning for capacity-scaled systems, deviation-bounded under four canonical orders for the true queue capacities) of client requests against the real dispatcher/hooks/upgrader code; oracle: no reachable state without an enabled thread while a request is unanswered, daemons back at their loop heads at quiescence.',
        'note': 'Channel-level scheduling points; modelled timers/exec/http; capacity scaling is an abstraction backed by the true-capacity runs; client mixes are the stated scenarios.',
        'parts': [McPart('mc', 'C10', 'cmd/whawty-auth', ['harness/agentmc'], AGENT_RW)],
    },
}
