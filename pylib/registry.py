"""Registry: which parts make up each property's check (see DESIGN.md section 4)."""
from vlib import GoBin, GoTest, McPart, RwTest, TracePart, PamxPart, BindPart

MC = 'github.com/whawty/auth/internal/verifmc'
AGENT_RW = {'imports': {
    'store.go': {'net/http': MC + '/vhttp', 'os/signal': MC + '/vsignal', 'time': MC + '/vtime'},
    'hooks.go': {'os/exec': MC + '/vexec', 'time': MC + '/vtime'},
    '*': {'time': MC + '/vtime', 'sync': MC + '/vsync'}}}
# the store package gets the virtual clock as well: record timestamps must not depend on when, in real
# time, an execution happens to run
STORE_FILEOPS = [('store', {'fileops': True, 'imports': {'*': {'time': MC + '/vtime'}}})]
SASL_RW = {'imports': {'*': {'time': MC + '/vtime', 'sync': MC + '/vsync'}}}
AGENT_SEQ = {'only_imports': True, 'imports': {'web_session.go': {'time': MC + '/vtime'}}}


ENGINES = [
    {'name': 'pamx', 'path': 'pamx', 'serves_properties': ['C20', 'C13', 'C05'],
     'kind_free_text': 'in-process DFS over environment answers for the C PAM module (clang ASan/UBSan, --wrap of socket calls, stub PAM headers, virtual time)'},
    {'name': 'tracefs', 'path': 'tracefs harness/drv harness/oracle', 'serves_properties': ['C03', 'C08', 'C09', 'C15'],
     'kind_free_text': 'strace-based system-call trace of a driver built from the real code, replayed in a Python file-system persistence model (validated against the real directory); exhaustive crash-state / fault / path enumeration'},
    {'name': 'mc', 'path': 'mc tools/mcrewrite harness/agentmc harness/saslmc', 'serves_properties': ['C04', 'C05', 'C06', 'C10', 'C14', 'C11', 'C12', 'C18', 'C19'],
     'kind_free_text': 'hand-written controlled scheduler + stateless/state-pruned DFS explorer for Go channel code, bound to the real source by an AST rewriter applied through go build -overlay'},
    {'name': 'seqx', 'path': 'harness/c01 harness/c02 harness/c14 harness/c16 harness/c18 harness/x', 'serves_properties': ['C01', 'C02', 'C14', 'C16', 'C18'],
     'kind_free_text': 'explicit-state BFS over operation sequences on the real store.Dir with a reference model (hand-written, Go)'},
]

NOT_CLAIMED = {}

CHECKS = {
    'C01': {
        'level': 'model_checking',
        'engine': 'seqx',
        'technique': 'explicit-state BFS to closure over store operation sequences vs. reference model; exhaustive near-miss password enumeration',
        'text': 'Every add/update/set-admin/remove with every argument of the alphabet is executed from every reachable model state '
                '(full closure, not sampled) on the real store.Dir, and all observers are compared with a reference map after every transition; '
                'near-miss passwords are enumerated exhaustively per base password and parameter set.',
        'note': 'Small alphabets (2 users, <=5 passwords, 3 cheap parameter sets) stand for all; sequential execution only; the reference model is the property statement.',
        'parts': [GoBin('seqx', 'harness/c01')],
    },
    'C02': {
        'level': 'exploration',
        'engine': 'seqx',
        'technique': 'bounded exhaustive input enumeration (all short strings over a separator alphabet; every single mutation / every truncation length of valid records) against an independent decoder and digest recomputation',
        'text': 'Every enumerated file content is written by the harness and judged on the real store.Dir: a success must be explained by an independent recomputation of the digest; every other content must fail cleanly and follow the schema rules for unsupported files; independently produced records must authenticate.',
        'note': 'Inputs outside the enumerated alphabets/mutations are not covered; hangs would show up as a tool timeout, not as a verdict.',
        'parts': [GoBin('inputs', 'harness/c02')],
    },
    'C14': {
        'level': 'exploration',
        'engine': 'seqx',
        'technique': 'exhaustive enumeration over a grid of generated configuration files x passwords x write paths with independent digest recomputation',
        'text': 'For every configuration of the grid (all combinations of the stated scrypt/argon2id parameter values incl. defaulted r/p, multi-set stores with every default) every record written by add/update is parsed against the schema and its digest recomputed independently from the YAML numbers; salts must be pairwise distinct over all writes.',
        'note': 'Parameter values are limited to cheap ones; x/crypto primitives are the trusted reference; salt freshness is only checkable as distinctness.',
        'parts': [GoBin('records', 'harness/c14'),
                  McPart('reload', 'C14', 'cmd/whawty-auth', ['harness/agentmc'], AGENT_RW, extra_rewrites=STORE_FILEOPS)],
    },
    'C18': {
        'level': 'model_checking',
        'engine': 'seqx+mc',
        'technique': 'exhaustive enumeration of configuration documents (every single-field mutation of valid configurations, numeric edge grids) vs. a reference predicate, accepted sets exercised in worker subprocesses; exhaustive schedule exploration (state-pruned reachability + deviation-bounded DFS) of reload signals against request streams on the rewritten agent',
        'text': 'Every document of the enumeration is loaded with the real loader and compared with a three-valued reference predicate derived from the statement; every accepted document is used (add + authenticate under each set) in a subprocess so that crashes are observed.',
        'note': 'Numeric values beyond the sandbox resources are excluded (stated in the evidence); reload scenarios use 1-3 signals and 1-2 clients.',
        'parts': [GoBin('loader', 'harness/c18'), McPart('reload', 'C18', 'cmd/whawty-auth', ['harness/agentmc'], AGENT_RW, extra_rewrites=STORE_FILEOPS)],
    },
    'C16': {
        'level': 'model_checking',
        'engine': 'seqx',
        'technique': 'exhaustive enumeration of directory contents (all subsets up to size 3/4 of an entry menu, both creation orders) vs. a reference predicate; explicit-state BFS closure over operation histories; built binary on invalid directories',
        'text': 'Check and Init are compared with reference predicates on every enumerated directory; every operation from every reachable model state keeps the store valid, one file per user and an empty work area (C01 search re-run with the validity observers); every CLI command refuses invalid directories with status 3.',
        'note': 'Directory entries are built from two valid names and three content classes; invalid names belong to C03.',
        'parts': [GoBin('dirs', 'harness/c16', agent=True), GoBin('histories', 'harness/c01', env={'VERIF_AS': 'C16'})],
    },
    'C04': {
        'level': 'exploration',
        'engine': 'seqx',
        'technique': 'exhaustive product enumeration store states x user names x passwords x frontends with store.Dir.Authenticate as reference verdict; exhaustive schedule exploration of concurrent requests on one listener (rewritten agent under the controlled scheduler)',
        'text': 'Every credential pair of the alphabet (transport-special bytes, boundary lengths, near misses) is submitted through each frontend (real saslauthd socket + bundled client, basic-auth, API authenticate, LDAP bind handler, built binary) and compared with the library verdict on the same directory; records that make the store fail internally must be denied everywhere. Concurrent requests with different verdicts through the SASL callback, LDAP bind, basic-auth and API handlers on one store interface: every schedule of the rewritten dispatcher is explored and every answer must be the store\'s verdict for that request.',
        'note': 'TLS listeners and systemd socket activation are not driven; the LDAP BER layer is exercised by the end-to-end part (glauth client against the built binary).',
        'parts': [RwTest('frontends', 'cmd/whawty-auth', ['harness/agentseq'], AGENT_SEQ, '^TestC04$', agent=True),
                  GoBin('e2e', 'harness/e2e', agent=True, env={'VERIF_E2E_PROP': 'C04'}),
                  McPart('mc', 'C04', 'cmd/whawty-auth', ['harness/agentmc'], AGENT_RW, extra_rewrites=STORE_FILEOPS)],
    },
    'C17': {
        'level': 'exploration',
        'engine': 'seqx',
        'technique': 'exhaustive product enumeration policy conditions x passwords x user names x write paths; policy-string grammar enumeration',
        'text': 'For every cell the verdict of the real agent (in-process write paths, HTTP API by every caller role, local hash upgrade, built binary) is compared with zxcvbn evaluated directly; refused requests must leave the store unchanged; every policy configuration string of the enumeration must be accepted/refused as the grammar says.',
        'note': 'zxcvbn itself is trusted; passwords are a fixed list spanning all five scores.',
        'parts': [RwTest('policy', 'cmd/whawty-auth', ['harness/agentseq'], AGENT_SEQ, '^TestC17$', agent=True)],
    },
    'C06': {
        'level': 'model_checking',
        'engine': 'seqx',
        'technique': 'explicit-state BFS over request sequences through the real handler mux; full endpoint x credential x target x body-shape matrix evaluated in every reached state against a reference authorisation model',
        'text': 'In every reached store state every cell of the matrix is sent to the real mux; refused cells must have a non-success status, disclose no list and leave the store byte-identical; authorised cells must have exactly the model effect; effective requests generate successor states (BFS).',
        'note': 'Handlers are driven in-process (httptest) against a real agent; tokens are issued once; the number of explored states is capped (reported).',
        'parts': [RwTest('webapi', 'cmd/whawty-auth', ['harness/agentseq'], AGENT_SEQ, '^TestC06$'),
                  RwTest('race', 'cmd/whawty-auth', ['harness/agentseq'], AGENT_SEQ, '^TestRaceC06$', race=True),
                  McPart('mc', 'C06', 'cmd/whawty-auth', ['harness/agentmc'], AGENT_RW, extra_rewrites=STORE_FILEOPS)],
    },
    'C07': {
        'level': 'exploration',
        'engine': 'seqx',
        'technique': 'exhaustive neighbourhood enumeration around issued tokens (all single-bit flips, single-character edits, splices, truncations, chosen plaintexts, ages) under a virtual clock',
        'text': 'Every presentation of the enumeration is checked on the real session factory: acceptance must be explained by the decoded content of a token this instance issued within its lifetime and must return exactly its identity; every issued token is accepted inside its lifetime.',
        'note': 'Forgery resistance is covered as the complete 1-edit neighbourhood of issued tokens, not as a cryptographic proof; nonce uniqueness is statistical.',
        'parts': [RwTest('tokens', 'cmd/whawty-auth', ['harness/agentseq'], AGENT_SEQ, '^TestC07$'),
                  RwTest('race', 'cmd/whawty-auth', ['harness/agentseq'], AGENT_SEQ, '^TestRaceC07$', race=True)],
    },
    'C11': {
        'level': 'model_checking',
        'engine': 'mc',
        'technique': 'exhaustive schedule exploration of the rewritten agent (state-pruned full reachability + deviation-bounded DFS); per-execution exhaustive linearizability search against a sequential store model incl. final-store read-out',
        'text': 'Every interleaving of 2-4 clients x 1-2 operations on overlapping users (Store interface, SASL callback, LDAP bind; upgrades off and local) is executed on the real dispatcher; each complete history must have a sequential order consistent with real time that explains every response and the final store directory.',
        'note': 'Histories of at most 8 operations; channel-level scheduling points; sequential reference model = property statement; data races left to the -race twin.',
        'parts': [McPart('mc', 'C11', 'cmd/whawty-auth', ['harness/agentmc'], AGENT_RW, extra_rewrites=STORE_FILEOPS),
                  RwTest('race', 'cmd/whawty-auth', ['harness/agentseq'], AGENT_SEQ, '^TestRace$', race=True, env={'VERIF_RACE_PROP': 'C11'}),
                  McPart('sasl-mc', 'C11', 'sasl', ['harness/saslmc'], SASL_RW),
                  GoTest('sasl-race', 'sasl', ['harness/saslseq'], '^TestRace$', race=True, env={'VERIF_RACE_PROP': 'C11'})],
    },
    'C03': {
        'level': 'exploration',
        'engine': 'tracefs',
        'technique': 'exhaustive product user names x store operations, each traced at system-call level and replayed in the FS model; path-confinement oracle on every path-taking system call; in-process frontends with the same names',
        'text': 'Every name of the adversarial alphabet is passed to every store operation in a traced driver on a tree with a sibling store and decoys: each path-taking system call must be <base>, <base>/.tmp/* or <base>/<valid name>.user|.admin, nothing outside the base changes, invalid names have no effect and never authenticate (library and every frontend).',
        'note': 'Names are a fixed adversarial list; lexical path normalisation (no symlinks in the tree).',
        'parts': [TracePart('paths', 'c03'), GoBin('namesweep', 'harness/c03'), RwTest('frontends', 'cmd/whawty-auth', ['harness/agentseq'], AGENT_SEQ, '^TestC03$')],
    },
    'C08': {
        'level': 'model_checking',
        'engine': 'tracefs',
        'technique': 'system-call trace of the real operation replayed in a file-system persistence model; exhaustive enumeration of process-kill points (incl. torn writes) and power-loss images; recovery oracle = fresh store instance',
        'text': 'For every history the real add/update/init is traced; at every mutating system call every crash image of both models is generated, deduplicated and judged byte-wise (old-complete / new-complete / absent-or-empty) and by a fresh store.Dir (passwords, consistency check, other users).',
        'note': 'Standard persistence model (independent loss of un-fsynced directory operations, prefix/torn loss of un-fsynced data, atomic rename); model validated against the real directory at every operation boundary.',
        'parts': [TracePart('crash', 'c08')],
    },
    'C09': {
        'level': 'model_checking',
        'engine': 'tracefs',
        'technique': 'system-call trace replayed in a file-system persistence model; exhaustive enumeration of power-loss images after every acknowledgement',
        'text': 'One traced history covering init/add/update/set-admin/remove; at every later system call every power-loss image must show every acknowledged operation, observed through a fresh store.Dir.',
        'note': 'Same persistence model as C08.',
        'parts': [TracePart('durability', 'c09'), TracePart('fsync-faults', 'c09_faults')],
    },
    'C15': {
        'level': 'fault_enumeration',
        'engine': 'tracefs',
        'technique': 'exhaustive single-fault injection (every occurrence of every file-system system call of every mutating operation x errnos) via ptrace; trace replay of read-only and failing calls in the FS model; exhaustive aux-data x operation product',
        'text': 'Every system call of init/add/update/set-admin/remove is made to fail once with each applicable errno; an operation that reports failure must leave everything outside the work area byte-identical. Read-only and semantically failing calls are traced and must issue no mutating system call. Auxiliary data of every shape survives update / set-admin byte-for-byte, all other files untouched.',
        'note': 'One fault per run; library level (the frontends only add authenticate calls, see C04).',
        'parts': [TracePart('faults', 'c15_faults'), TracePart('readonly', 'c15_readonly'), GoBin('auxdata', 'harness/c15'),
                  GoBin('e2etrace', 'harness/e2e', agent=True, env={'VERIF_E2E_PROP': 'C15', 'VERIF_E2E_TRACE': '1'})],
    },
    'C12': {
        'level': 'model_checking',
        'engine': 'mc',
        'technique': 'exhaustive schedule exploration (state-pruned full reachability) of login sequences against the rewritten agent for every (record set, default) pair, every frontend and upgrade mode; explicit-state closure at library level for the upgradeable flag',
        'text': 'For every cell the real agent is explored to quiescence under all schedules: with upgrades on, a successful login of an upgradeable record ends with the record under the default set for exactly the same password, aux data and admin flag unchanged, no longer upgradeable; wrong logins, up-to-date records, policy-failing passwords and upgrades-off leave every byte (and the hooks) untouched; the upgradeable flag itself is checked at library level in every state of the C01 closure.',
        'note': 'Single-client login sequences (idle agent) plus one two-client scenario; the interaction with concurrent management requests is C11.',
        'parts': [McPart('mc', 'C12', 'cmd/whawty-auth', ['harness/agentmc'], AGENT_RW, extra_rewrites=STORE_FILEOPS), GoBin('upgradeable', 'harness/c01', env={'VERIF_AS': 'C12'}),
                  GoBin('upgrade-aux', 'harness/c15', env={'VERIF_AS': 'C12'})],
    },
    'C19': {
        'level': 'model_checking',
        'engine': 'mc',
        'technique': 'exhaustive schedule exploration of the rewritten agent + hook caller with virtual rate-limit/kill timers and modelled exec (state-pruned full reachability + deviation-bounded DFS); exhaustive enumeration of hooks-directory contents',
        'text': 'Every ordering of change notifications, timer expiries and hook-process events is explored on the real hooks loop; monitors on the recorded process starts: every store change is followed by a round for that store, at most two rounds per interval, nothing runs without a change, a hanging hook is killed after exactly one minute and never blocks the agent. Every directory content of the enumeration is judged against the eligibility rule.',
        'note': 'Processes are modelled (real eligibility test of the file, behaviour fast/failing/hanging chosen by the harness); timers are virtual.',
        'parts': [McPart('mc', 'C19', 'cmd/whawty-auth', ['harness/agentmc'], AGENT_RW, extra_rewrites=STORE_FILEOPS)],
    },
    'C05': {
        'level': 'model_checking',
        'engine': 'seqx+mc+pamx',
        'technique': 'exhaustive enumeration of client byte streams x deliveries x callback outcomes on the real per-connection handler; exhaustive schedule exploration of concurrent connections on the rewritten accept loop; replies replayed into the Go client decoder and the compiled PAM module',
        'text': 'Every stream/delivery/callback cell is handled by the real handler over a scripted connection: at most one callback call with exactly the decoded fields, exactly one well-formed length-prefixed reply, then close; positive only if decoded completely and approved without error; every reply decodes with the Go client and the PAM module to the verdict. Concurrent connections are explored under the controlled scheduler: no connection ever sees another one\'s reply.',
        'note': 'Connections are in-memory objects (kernel socket buffering is exercised by C04 over a real unix socket).',
        'parts': [GoTest('streams', 'sasl', ['harness/saslseq'], '^TestC05$'), PamxPart('pam-replies', mode='replies', producer='goreplies.bin'),
                  McPart('mc', 'C05', 'sasl', ['harness/saslmc'], SASL_RW),
                  GoTest('race', 'sasl', ['harness/saslseq'], '^TestRace$', race=True)],
    },
    'C13': {
        'level': 'exploration',
        'engine': 'seqx+pamx',
        'technique': 'bounded exhaustive enumeration: all field-length vectors over boundary lengths, all byte strings up to length 5/6 over a protocol alphabet vs. a reference codec, every fragmentation (composition into reads, zero-length reads, EOF with data) of short streams; C encoder bound to the Go encoder by exported vectors',
        'text': 'Encoder output equals the wire format for every boundary vector; over-limit fields are refused by encoder and decoder; every enumerated byte string decodes exactly like a reference decoder written from the format, and re-encodes to the consumed prefix; the decode result is identical under every fragmentation; the compiled PAM module writes the same bytes as sasl.Request.Marshal for every exported vector.',
        'note': 'Byte strings beyond the enumerated alphabet/length and fragmentations of streams longer than 10 (14) bytes are covered by representative patterns only.',
        'parts': [GoTest('codec', 'sasl', ['harness/saslseq'], '^TestC13$'), PamxPart('pam-encoder', mode='vectors', producer='pamvectors.bin')],
    },
    'C20': {
        'level': 'model_checking',
        'engine': 'pamx',
        'technique': 'exhaustive deviation-bounded exploration of environment answers (wrapped socket/select/read/write) around the unchanged, sanitizer-instrumented C module, per enumerated case (credentials, options, server script)',
        'text': 'For every case every sequence of environment answers within the deviation bound is executed on the real module: PAM_SUCCESS only after a complete reply beginning with OK and a complete, well-formed request; every other behaviour returns a non-success code within the step/time budget, with no sanitizer report, no SIGPIPE and no socket leak; cooperative runs give the exact verdict.',
        'note': 'PAM framework calls are stubs; the socket is simulated (virtual time); select() failing with EBADF/EINVAL is outside the model.',
        'parts': [PamxPart('explore')],
    },
    'C10': {
        'level': 'model_checking',
        'engine': 'mc',
        'technique': 'stateless + state-pruned exhaustive schedule exploration of the real (mechanically rewritten) agent under a controlled scheduler; deadlock oracle',
        'text': 'All interleavings (full reachability with state-key pruning for capacity-scaled systems, deviation-bounded under four canonical orders for the true queue capacities) of client requests against the real dispatcher/hooks/upgrader code; oracle: no reachable state without an enabled thread while a request is unanswered, daemons back at their loop heads at quiescence.',
        'note': 'Channel-level scheduling points; modelled timers/exec/http; capacity scaling is an abstraction backed by the true-capacity runs; client mixes are the stated scenarios.',
        'parts': [McPart('mc', 'C10', 'cmd/whawty-auth', ['harness/agentmc'], AGENT_RW, extra_rewrites=STORE_FILEOPS), BindPart('binding', 'C10', AGENT_RW, AGENT_SEQ),
                  McPart('sasl-mc', 'C10', 'sasl', ['harness/saslmc'], SASL_RW)],
    },
}
