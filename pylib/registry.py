"""Registry: which parts make up each property's check (see DESIGN.md section 4)."""
from vlib import GoBin, GoTest

ENGINES = [
    {'name': 'seqx', 'path': 'harness/c01 harness/x', 'serves_properties': ['C01'],
     'kind_free_text': 'explicit-state BFS over operation sequences on the real store.Dir with a reference model (hand-written, Go)'},
]

NOT_CLAIMED = {}

CHECKS = {
    'C01': {
        'level': 'model_checking',
        'engine': 'seqx',
        'technique': 'explicit-state BFS to closure over store operation sequences vs. reference model; exhaustive near-miss password enumeration',
        'text': 'Every add/update/set-admin/remove with every argument of the alphabet is executed from every reachable model state '
                '(full closure, not sampled) on the real store.Dir, and all observers are compared with a reference map after every transition; '
                'near-miss passwords are enumerated exhaustively per base password and parameter set.',
        'note': 'Small alphabets (2 users, <=5 passwords, 3 cheap parameter sets) stand for all; sequential execution only; the reference model is the property statement.',
        'parts': [GoBin('seqx', 'harness/c01')],
    },
}
