#!/bin/sh
# Run once after a fresh restore (offline): warms the Go build cache by building every harness once.
cd "$(dirname "$0")" || exit 1
export GOPROXY=off GOSUMDB=off GOTOOLCHAIN=local GOFLAGS=
chmod +x check tools/*.py 2>/dev/null
python3 tools/warm.py
