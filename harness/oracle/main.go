// oracle: the recovery oracle of the tracefs engine.  For every post-crash directory image
// it receives, it materialises the image and observes it through a FRESH store.Dir:
// Check, List, ListFull, Exists and Authenticate for every probe.
package main

import (
	"encoding/base64"
	"encoding/json"
	"fmt"
	"os"
	"path/filepath"
	"sort"

	"github.com/whawty/auth/internal/verifx"
)

type state struct {
	ID    string            `json:"id"`
	Files map[string]string `json:"files"`
	Dirs  []string          `json:"dirs"`
	Links map[string]string `json:"links"`
}

type input struct {
	Scratch string      `json:"scratch"`
	States  []state     `json:"states"`
	Probes  [][2]string `json:"probes"` // base64(user), base64(pw)
	Default uint        `json:"default"`
}

type obs struct {
	Check    string             `json:"check"`
	List     []string           `json:"list"`
	ListFull map[string]bool    `json:"listfull"`
	Auth     map[string][2]bool `json:"auth"`
	Exists   map[string][2]bool `json:"exists"`
	Panic    string             `json:"panic,omitempty"`
}

func main() {
	b, err := os.ReadFile(os.Args[1])
	if err != nil {
		fmt.Fprintln(os.Stderr, err)
		os.Exit(2)
	}
	var in input
	if err := json.Unmarshal(b, &in); err != nil {
		fmt.Fprintln(os.Stderr, err)
		os.Exit(2)
	}
	if in.Default == 0 {
		in.Default = 1
	}
	out := map[string]*obs{}
	res := make([]*obs, len(in.States))
	verifx.Parallel(len(in.States), func(w, i int) {
		st := in.States[i]
		dir := filepath.Join(in.Scratch, fmt.Sprintf("w%d", w), "s")
		os.RemoveAll(dir)
		os.MkdirAll(dir, 0700) //nolint:errcheck
		sort.Strings(st.Dirs)
		for _, d := range st.Dirs {
			os.MkdirAll(filepath.Join(dir, d), 0700) //nolint:errcheck
		}
		for f, c := range st.Files {
			data, _ := base64.StdEncoding.DecodeString(c)
			os.MkdirAll(filepath.Dir(filepath.Join(dir, f)), 0700) //nolint:errcheck
			if err := os.WriteFile(filepath.Join(dir, f), data, 0600); err != nil {
				fmt.Fprintln(os.Stderr, "materialise:", err)
				os.Exit(2)
			}
		}
		for f, t := range st.Links {
			os.Symlink(t, filepath.Join(dir, f)) //nolint:errcheck
		}
		o := &obs{ListFull: map[string]bool{}, Auth: map[string][2]bool{}, Exists: map[string][2]bool{}}
		func() {
			defer func() {
				if r := recover(); r != nil {
					o.Panic = fmt.Sprint(r)
				}
			}()
			d := verifx.CheapDir(dir, in.Default)
			if err := d.Check(); err != nil {
				o.Check = err.Error()
			}
			if l, err := d.List(); err == nil {
				for k := range l {
					o.List = append(o.List, k)
				}
				sort.Strings(o.List)
			}
			if l, err := d.ListFull(); err == nil {
				for k, v := range l {
					o.ListFull[k] = v.IsSupported
				}
			}
			for _, p := range in.Probes {
				u, _ := base64.StdEncoding.DecodeString(p[0])
				pw, _ := base64.StdEncoding.DecodeString(p[1])
				ok, adm, _, _, _ := d.Authenticate(string(u), string(pw))
				o.Auth[p[0]+"|"+p[1]] = [2]bool{ok, adm}
				ex, ea, _ := d.Exists(string(u))
				o.Exists[p[0]] = [2]bool{ex, ea}
			}
		}()
		res[i] = o
	})
	for i, st := range in.States {
		out[st.ID] = res[i]
	}
	ob, _ := json.Marshal(out)
	os.Stdout.Write(ob)
}
