package main

// Sequential (non-scheduled) harnesses living inside package main of the agent.  Built
// from the current tree with only `time` swapped for the virtual clock in
// web_session.go (import rewrite by mcrewrite, no channel rewriting).

import (
	"fmt"
	"io"
	"log"
	"os"
	"path/filepath"

	"github.com/whawty/auth/internal/verifx"
)

func init() {
	log.SetOutput(io.Discard)
	wl.SetOutput(io.Discard)
}

func must(err error) {
	if err != nil {
		fmt.Fprintln(os.Stderr, "harness infrastructure error:", err)
		os.Exit(2)
	}
}

// newAgent starts a real agent (dispatcher goroutine) over a fresh cheap store.
func newAgent(root string, def uint, upgrades, policyCond, hooksDir string) (*Store, string) {
	dir := filepath.Join(root, "store")
	must(os.MkdirAll(dir, 0700))
	cf := filepath.Join(root, "store.yaml")
	must(os.WriteFile(cf, []byte(verifx.CheapConfigYAML(dir, def)), 0600))
	ptype := ""
	if policyCond != "" {
		ptype = "zxcvbn"
	}
	s, err := NewStore(cf, upgrades, ptype, policyCond, hooksDir)
	must(err)
	return s.GetInterface(), dir
}
