package main

// Free-running -race twin of the scheduler-based explorations (DESIGN.md 2.1): the same
// kinds of client scripts against the UN-rewritten package with real goroutines and real
// channels.  The cooperative scheduler's hand-offs are happens-before edges that blind the
// race detector, so unsynchronised accesses are looked for here.  This pass samples
// schedules; it is a data-race detector, not the deciding step of any property.

import (
	"encoding/json"
	"fmt"
	"net/http"
	"os"
	"path/filepath"
	"strings"
	"sync"
	"testing"

	"github.com/whawty/auth/internal/verifev"
	"github.com/whawty/auth/internal/verifx"
)

func TestRace(t *testing.T) {
	prop := os.Getenv("VERIF_RACE_PROP")
	if prop == "" {
		prop = "C11"
	}
	ev := verifev.New(prop, "race")
	root := verifx.Scratch("race")
	defer os.RemoveAll(root)
	rounds := 30
	if ev.Thorough() {
		rounds = 300
	}
	for _, mode := range []string{"", "local"} {
		r := filepath.Join(root, "m"+mode)
		hooks := filepath.Join(r, "hooks")
		must(os.MkdirAll(hooks, 0755))
		must(os.WriteFile(filepath.Join(hooks, "h"), []byte("#!/bin/sh\nexit 0\n"), 0755))
		dir := filepath.Join(r, "store")
		must(os.MkdirAll(dir, 0700))
		cf := filepath.Join(r, "store.yaml")
		must(os.WriteFile(cf, []byte(verifx.CheapConfigYAML(dir, 1)), 0600))
		must(verifx.CheapDir(dir, 1).AddUser("root", "rootpw", true))
		lib2 := verifx.CheapDir(dir, 2)
		must(lib2.AddUser("u", "o", false))
		must(lib2.AddUser("v", "vpw", false))
		s, err := NewStore(cf, mode, "", "", hooks)
		must(err)
		st := s.GetInterface()
		mux, err := newWebHandler(st)
		must(err)
		for k := 0; k < rounds; k++ {
			var wg sync.WaitGroup
			scripts := []func(){
				func() { st.Update("u", "n"); st.Authenticate("u", "n") },                                         //nolint:errcheck
				func() { st.Authenticate("u", "o"); st.Authenticate("v", "vpw"); st.List() },                      //nolint:errcheck
				func() { st.Add("w", "x", false); st.SetAdmin("w", true); st.Remove("w") },                        //nolint:errcheck
				func() { callback("u", "o", "s", "r", "/p", st); ldapHandler{store: st}.Bind("v@x", "vpw", nil) }, //nolint:errcheck
				// two logins at once: each caller gets the session of its own identity
				func() { sessionIs(ev, mux, "root", "rootpw", true) },
				func() { sessionIs(ev, mux, "v", "vpw", false) },
				func() { st.Update("u", "o"); st.Check() }, //nolint:errcheck
			}
			for _, f := range scripts {
				wg.Add(1)
				go func(f func()) { defer wg.Done(); f() }(f)
			}
			wg.Wait()
			ev.Add("evaluations", len(scripts))
		}
		ev.Distinct("mode=" + mode)
	}
	ev.Distinct(fmt.Sprint("rounds=", rounds))
	ev.Rule = fmt.Sprintf("%d rounds x 7 concurrent client scripts x upgrade modes off/local against the plain (un-rewritten) agent with real hooks under the Go race detector; a race report is a violation (sampling pass, not the deciding step)", rounds)
	ev.Sample(map[string]any{"scripts": "update+auth | auth+auth+list | add+set-admin+remove | sasl callback + ldap bind | api login (admin) + identity probe | api login (user) + identity probe | update+check"})
	ev.Finish()
}

// sessionIs logs in over the web API and probes the session it was handed: /api/list answers 200
// exactly for an administrator's session, and a password update of the own account is allowed
// for exactly that account's session.
func sessionIs(ev *verifev.Run, mux http.Handler, user, pw string, admin bool) {
	sess := login(mux, user, pw)
	b, _ := json.Marshal(map[string]string{"session": sess})
	code, body := post(mux, "/api/list", b, [2]string{})
	if (code == 200) != admin {
		ev.Violation("concurrent-login-got-foreign-session", fmt.Sprintf("session handed to %s (admin=%v): /api/list answers %d %s", user, admin, code, body), nil)
	}
	other := "v"
	if user == "v" {
		other = "root"
	}
	b, _ = json.Marshal(map[string]string{"session": sess, "username": other, "newpassword": ""})
	if code, _ := post(mux, "/api/update", b, [2]string{}); !admin && code == 200 {
		ev.Violation("concurrent-login-got-foreign-session", fmt.Sprintf("session handed to %s is accepted for an update of %s", user, other), nil)
	}
}

// TestRaceC07: concurrent token issuance and checking on ONE session factory (the HTTP
// handlers run concurrently on the shared factory).  Under the race detector; in addition
// every issued token must be accepted with its identity and all nonces must be distinct.
func TestRaceC07(t *testing.T) {
	ev := verifev.New("C07", "race")
	f, err := NewWebSessionFactory(600e9)
	must(err)
	workers, per := 8, 2000
	if ev.Thorough() {
		per = 20000
	}
	type tok struct {
		text  string
		user  string
		admin bool
	}
	res := make([][]tok, workers)
	var wg sync.WaitGroup
	for w := 0; w < workers; w++ {
		wg.Add(1)
		go func(w int) {
			defer wg.Done()
			for i := 0; i < per; i++ {
				u := fmt.Sprintf("user%d", w)
				st, _, text := f.Generate(u, w%2 == 0)
				if st != 200 {
					ev.Violation("concurrent-generate-failed", fmt.Sprintf("Generate returned %d", st), nil)
					return
				}
				res[w] = append(res[w], tok{text, u, w%2 == 0})
				// checking concurrently as well
				if st, _, gu, ga := f.Check(text); st != 200 || gu != u || ga != (w%2 == 0) {
					ev.Violation("concurrently-issued-token-refused", fmt.Sprintf("token just issued for (%s,%v) checks as %d (%s,%v)", u, w%2 == 0, st, gu, ga), nil)
					return
				}
			}
		}(w)
	}
	wg.Wait()
	nonces := map[string]bool{}
	for w := range res {
		for _, tk := range res[w] {
			n, _, _ := strings.Cut(tk.text, ":")
			if nonces[n] {
				ev.Violation("nonce-reused-under-concurrency", "two concurrently issued tokens share the nonce "+n, nil)
			}
			nonces[n] = true
			if st, _, gu, ga := f.Check(tk.text); st != 200 || gu != tk.user || ga != tk.admin {
				ev.Violation("concurrently-issued-token-refused", fmt.Sprintf("token issued for (%s,%v) checks as %d (%s,%v)", tk.user, tk.admin, st, gu, ga), nil)
			}
			ev.Add("evaluations", 1)
		}
	}
	ev.Distinct("workers=8")
	ev.Distinct(fmt.Sprint("tokens=", len(nonces)))
	ev.Rule = fmt.Sprintf("%d goroutines x %d Generate+Check calls on one factory under the Go race detector; all nonces distinct, every token accepted with its identity (sampling pass for unsynchronised state in the factory)", workers, per)
	ev.Sample(map[string]any{"tokens": workers * per})
	ev.Finish()
}

// TestRaceC06: concurrent HTTP API requests with different credentials through one mux (the
// real server runs handlers concurrently).  Every response is judged on its own: a refused
// request must be refused and without effect even while authorised requests of other
// clients are in flight (no state may travel between requests).  Under the race detector.
func TestRaceC06(t *testing.T) {
	ev := verifev.New("C06", "race")
	root := verifx.Scratch("race06")
	defer os.RemoveAll(root)
	st, dir := newAgent(root, 1, "", "", "")
	lib := verifx.CheapDir(dir, 1)
	must(lib.AddUser("root", "rootpw", true))
	workers := 6
	for w := 0; w < workers; w++ {
		must(lib.AddUser(fmt.Sprintf("user%d", w), fmt.Sprintf("pw%d", w), false))
		must(lib.AddUser(fmt.Sprintf("victim%d", w), "victimpw", false))
	}
	mux, err := newWebHandler(st)
	must(err)
	tAdmin := login(mux, "root", "rootpw")
	rounds := 60
	if ev.Thorough() {
		rounds = 600
	}
	var wg sync.WaitGroup
	for w := 0; w < workers; w++ {
		wg.Add(1)
		go func(w int) {
			defer wg.Done()
			me, victim := fmt.Sprintf("user%d", w), fmt.Sprintf("victim%d", w)
			tok := login(mux, me, fmt.Sprintf("pw%d", w))
			pj := func(ep string, f map[string]any) (int, []byte) {
				b, _ := json.Marshal(f)
				return post(mux, "/api/"+ep, b, [2]string{})
			}
			for k := 0; k < rounds; k++ {
				tmp := fmt.Sprintf("tmp%d", w)
				// authorised (admin): add and remove a private temporary user
				if c, _ := pj("add", map[string]any{"session": tAdmin, "username": tmp, "password": "Tmp-pw-1"}); c != 200 {
					ev.Violation("concurrent-authorised-request-refused", fmt.Sprintf("admin add of %s: status %d", tmp, c), nil)
				}
				// refused: a user session must not manage others, with every body shape that omits fields
				for _, f := range []map[string]any{
					{"session": tok, "username": victim, "newpassword": "Hacked-1"},
					{"username": victim, "newpassword": "Hacked-2"},
					{"newpassword": "Hacked-3", "username": victim, "oldpassword": "wrong"},
					{"session": tok, "username": victim},
				} {
					if c, body := pj("update", f); c == 200 {
						ev.Violation("concurrent-unauthorised-update-succeeded", fmt.Sprintf("worker %d: update of %s with %v succeeded: %s", w, victim, f, body), nil)
					}
				}
				if c, _ := pj("remove", map[string]any{"session": tok, "username": victim}); c == 200 {
					ev.Violation("concurrent-unauthorised-remove-succeeded", "user session removed another user", nil)
				}
				if c, body := pj("list", map[string]any{"session": tok}); c == 200 || leaksList(body) {
					ev.Violation("concurrent-list-disclosed", "user session listed users", nil)
				}
				// authorised: own password change and back
				if c, _ := pj("update", map[string]any{"session": tok, "username": me, "newpassword": fmt.Sprintf("pw%d", w)}); c != 200 {
					ev.Violation("concurrent-authorised-request-refused", fmt.Sprintf("own update of %s: status %d", me, c), nil)
				}
				if c, _ := pj("remove", map[string]any{"session": tAdmin, "username": tmp}); c != 200 {
					ev.Violation("concurrent-authorised-request-refused", fmt.Sprintf("admin remove of %s: status %d", tmp, c), nil)
				}
				ev.Add("evaluations", 9)
			}
		}(w)
	}
	wg.Wait()
	for w := 0; w < workers; w++ {
		if ok, _, _, _, _ := lib.Authenticate(fmt.Sprintf("victim%d", w), "victimpw"); !ok {
			ev.Violation("concurrent-unauthorised-effect", fmt.Sprintf("victim%d's password changed although every request against it had to be refused", w), nil)
		}
		if ok, _, _, _, _ := lib.Authenticate(fmt.Sprintf("user%d", w), fmt.Sprintf("pw%d", w)); !ok {
			ev.Violation("concurrent-own-update-lost", fmt.Sprintf("user%d cannot log in with the password it set itself", w), nil)
		}
	}
	ev.Distinct("workers=6")
	ev.Distinct(fmt.Sprint("rounds=", rounds))
	ev.Rule = fmt.Sprintf("%d concurrent clients x %d rounds x 9 API requests (authorised admin add/remove, own update; refused foreign update in 4 body shapes, remove, list) through one mux under the Go race detector; every response judged individually, victims' passwords unchanged at the end (sampling pass)", workers, rounds)
	ev.Sample(map[string]any{"requests_per_round": 9})
	ev.Finish()
}
