package main

// Free-running -race twin of the scheduler-based explorations (DESIGN.md 2.1): the same
// kinds of client scripts against the UN-rewritten package with real goroutines and real
// channels.  The cooperative scheduler's hand-offs are happens-before edges that blind the
// race detector, so unsynchronised accesses are looked for here.  This pass samples
// schedules; it is a data-race detector, not the deciding step of any property.

import (
	"fmt"
	"os"
	"path/filepath"
	"sync"
	"testing"

	"github.com/whawty/auth/internal/verifev"
	"github.com/whawty/auth/internal/verifx"
)

func TestRace(t *testing.T) {
	prop := os.Getenv("VERIF_RACE_PROP")
	if prop == "" {
		prop = "C11"
	}
	ev := verifev.New(prop, "race")
	root := verifx.Scratch("race")
	defer os.RemoveAll(root)
	rounds := 30
	if ev.Thorough() {
		rounds = 300
	}
	for _, mode := range []string{"", "local"} {
		r := filepath.Join(root, "m"+mode)
		hooks := filepath.Join(r, "hooks")
		must(os.MkdirAll(hooks, 0755))
		must(os.WriteFile(filepath.Join(hooks, "h"), []byte("#!/bin/sh\nexit 0\n"), 0755))
		dir := filepath.Join(r, "store")
		must(os.MkdirAll(dir, 0700))
		cf := filepath.Join(r, "store.yaml")
		must(os.WriteFile(cf, []byte(verifx.CheapConfigYAML(dir, 1)), 0600))
		must(verifx.CheapDir(dir, 1).AddUser("root", "rootpw", true))
		lib2 := verifx.CheapDir(dir, 2)
		must(lib2.AddUser("u", "o", false))
		must(lib2.AddUser("v", "vpw", false))
		s, err := NewStore(cf, mode, "", "", hooks)
		must(err)
		st := s.GetInterface()
		mux, err := newWebHandler(st)
		must(err)
		for k := 0; k < rounds; k++ {
			var wg sync.WaitGroup
			scripts := []func(){
				func() { st.Update("u", "n"); st.Authenticate("u", "n") },                                         //nolint:errcheck
				func() { st.Authenticate("u", "o"); st.Authenticate("v", "vpw"); st.List() },                      //nolint:errcheck
				func() { st.Add("w", "x", false); st.SetAdmin("w", true); st.Remove("w") },                        //nolint:errcheck
				func() { callback("u", "o", "s", "r", "/p", st); ldapHandler{store: st}.Bind("v@x", "vpw", nil) }, //nolint:errcheck
				func() { login(mux, "root", "rootpw") },
				func() { st.Update("u", "o"); st.Check() }, //nolint:errcheck
			}
			for _, f := range scripts {
				wg.Add(1)
				go func(f func()) { defer wg.Done(); f() }(f)
			}
			wg.Wait()
			ev.Add("evaluations", len(scripts))
		}
		ev.Distinct("mode=" + mode)
	}
	ev.Distinct(fmt.Sprint("rounds=", rounds))
	ev.Rule = fmt.Sprintf("%d rounds x 6 concurrent client scripts x upgrade modes off/local against the plain (un-rewritten) agent with real hooks under the Go race detector; a race report is a violation (sampling pass, not the deciding step)", rounds)
	ev.Sample(map[string]any{"scripts": "update+auth | auth+auth+list | add+set-admin+remove | sasl callback + ldap bind | api login | update+check"})
	ev.Finish()
}
