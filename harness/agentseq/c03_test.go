package main

// C03 (frontend part) — a user name outside the schema's grammar never authenticates
// through any frontend and no management request with such a name has any effect inside
// or outside the base directory.

import (
	"encoding/json"
	"fmt"
	"os"
	"path/filepath"
	"regexp"
	"strings"
	"testing"
	"unicode/utf8"

	"github.com/whawty/auth/internal/verifev"
	"github.com/whawty/auth/internal/verifx"
)

func TestC03(t *testing.T) {
	ev := verifev.New("C03", "frontends")
	root := verifx.Scratch("c03f")
	defer os.RemoveAll(root)
	tree := filepath.Join(root, "tree")
	st, dir := newAgent(filepath.Join(tree, "x"), 1, "", "", "")
	// the base directory is <tree>/x/store; a sibling store next to it
	sib := filepath.Join(filepath.Dir(dir), "sib")
	must(os.MkdirAll(sib, 0700))
	lib := verifx.CheapDir(dir, 1)
	must(lib.AddUser("root", "rootpw", true))
	must(lib.AddUser("bob", "bobpw", false))
	sl := verifx.CheapDir(sib, 1)
	must(sl.AddUser("bob", "sibpw", false))
	must(sl.AddUser("sibadmin", "sibpw", true))
	must(os.WriteFile(filepath.Join(filepath.Dir(dir), "decoy.user"), []byte("x"), 0600))
	mux, err := newWebHandler(st)
	must(err)
	tAdmin := login(mux, "root", "rootpw")
	re := regexp.MustCompile("^[A-Za-z0-9][-_.@A-Za-z0-9]*$")
	names := []string{"", ".", "..", "../sib/bob", "../sib/sibadmin", sib + "/bob", "a/../bob", "./bob", "bob/", "bob/.", ".tmp/x", "../decoy", "-x", ".x", "_x", "@x", "x y", "x\n", "x\x00y", "bob\x00",
		"bob.user/../bob", "../store/root", "../store/bob", strings.Repeat("x", 256), "\xff\xfe", "böb", "bob ", " bob", "sib/bob", "//bob", "bob//", "bob", "root"}
	lh := ldapHandler{store: st}
	for _, name := range names {
		valid := re.MatchString(name)
		for _, pw := range []string{"bobpw", "sibpw", "rootpw"} {
			before := verifx.Snap(tree)
			type res struct {
				fe string
				ok bool
			}
			var rs []res
			ok, _, _ := callback(name, pw, "svc", "realm", "/sock", st)
			rs = append(rs, res{"sasl-callback", ok})
			if name != "" && !strings.Contains(name, ":") {
				code, _ := post(mux, "/basic-auth", nil, [2]string{name, pw})
				rs = append(rs, res{"basic-auth", code == 200})
			}
			if utf8.ValidString(name) {
				b, _ := json.Marshal(map[string]string{"username": name, "password": pw})
				code, _ := post(mux, "/api/authenticate", b, [2]string{})
				rs = append(rs, res{"api-authenticate", code == 200})
				b, _ = json.Marshal(map[string]string{"username": name, "oldpassword": pw, "newpassword": "Hacked-by-C03"})
				code, _ = post(mux, "/api/update", b, [2]string{})
				rs = append(rs, res{"api-update-oldpw", code == 200})
			}
			code, _ := lh.Bind(name, pw, nil)
			rs = append(rs, res{"ldap-bind", code == 0})
			code, _ = lh.Bind(name+"@realm", pw, nil)
			rs = append(rs, res{"ldap-bind@realm", code == 0})
			after := verifx.Snap(tree)
			for _, r := range rs {
				ev.Add("evaluations", 1)
				ev.Distinct(fmt.Sprintf("%s|%s|%s|%v", r.fe, name, pw, r.ok))
				if !valid && r.ok {
					ev.Violation("invalid-name-authenticates:"+r.fe, fmt.Sprintf("frontend %s accepted user name %s with password %q", r.fe, verifx.Q(name), pw), map[string]any{"frontend": r.fe, "name": []byte(name), "password": pw})
				}
			}
			if !valid && !after.Equal(before) {
				ev.Violation("invalid-name-effect:authenticate", fmt.Sprintf("requests with user name %s changed the tree: %s", verifx.Q(name), before.Diff(after)), map[string]any{"name": []byte(name)})
			}
			if valid && !after.Equal(before) && !(name == "bob" && pw == "bobpw") && !(name == "root" && pw == "rootpw") {
				ev.Violation("failed-login-effect", fmt.Sprintf("failed logins of %s changed the tree: %s", name, before.Diff(after)), nil)
			}
			must(verifx.Restore(tree+"/x/store", filterPrefix(before, "x/store/")))
		}
		// management with an admin session and an invalid target name
		if !valid && utf8.ValidString(name) && name != "" {
			before := verifx.Snap(tree)
			for _, ep := range []string{"add", "update", "set-admin", "remove"} {
				f := map[string]any{"session": tAdmin, "username": name, "password": "Mgmt-pw-1", "newpassword": "Mgmt-pw-1", "admin": true}
				b, _ := json.Marshal(f)
				code, resp := post(mux, "/api/"+ep, b, [2]string{})
				after := verifx.Snap(tree)
				ev.Add("evaluations", 1)
				ev.Distinct(fmt.Sprintf("mgmt|%s|%s|%d", ep, name, code))
				if !after.Equal(before) {
					ev.Violation("invalid-name-effect:api-"+ep, fmt.Sprintf("/api/%s with target %s (status %d %s) changed the tree: %s", ep, verifx.Q(name), code, strings.TrimSpace(string(resp)), before.Diff(after)),
						map[string]any{"endpoint": ep, "name": []byte(name)})
					must(verifx.Restore(tree+"/x/store", filterPrefix(before, "x/store/")))
					must(verifx.Restore(sib, filterPrefix(before, "x/sib/")))
				}
			}
		}
	}
	ev.Sample(map[string]any{"names": len(names), "frontends": "sasl callback, basic-auth, api authenticate, api update (old password), ldap bind (with and without @realm), api add/update/set-admin/remove by an admin"})
	ev.Rule = fmt.Sprintf("%d user names x 3 passwords (of the aliased users) x 6 authentication frontends + 4 management endpoints with an admin session; invalid names never authenticate and never change the tree (base, sibling store, decoys)", len(names))
	ev.Finish()
}

func filterPrefix(s verifx.Snapshot, prefix string) verifx.Snapshot {
	out := verifx.Snapshot{}
	for k, v := range s {
		if strings.HasPrefix(k, prefix) && k != prefix {
			out[strings.TrimPrefix(k, prefix)] = v
		}
	}
	return out
}
