package main

// C04 — every frontend returns exactly the store's verdict for the submitted credentials.
// Exhaustive product: store states x user names x presented passwords x frontends
// (saslauthd socket via the real listener + bundled client, HTTP basic-auth, HTTP API
// authenticate, LDAP bind handler, command-line authenticate of the built binary), the
// reference verdict being store.Dir.Authenticate on the same directory.

import (
	"encoding/json"
	"fmt"
	"net"
	"net/url"
	"os"
	"os/exec"
	"path/filepath"
	"strings"
	"testing"
	"time"
	"unicode/utf8"

	"github.com/whawty/auth/internal/verifev"
	"github.com/whawty/auth/internal/verifx"
	"github.com/whawty/auth/sasl"
)

func TestC04(t *testing.T) {
	ev := verifev.New("C04", "frontends")
	root := verifx.Scratch("c04")
	defer os.RemoveAll(root)
	nviol := 0
	for _, def := range []uint{1, 2} {
		c04store(ev, filepath.Join(root, fmt.Sprintf("d%d", def)), def)
		nviol = ev.NumViolations()
	}
	_ = nviol
	ev.Rule = "2 stores (default argon2id / scrypt; users created by add, update, remove+re-add, set-admin, one unsupported and one unreadable hash file) x 35 user names (incl. trailing/leading NUL and LF) x ~90 presented passwords (every user's password, near misses, each with a NUL / LF appended, a NUL prepended and trailing NUL/CR/LF stripped, ':' JSON-escape, non-BMP, NUL, 255/256/257-byte values) x 5 frontends; reference = store.Dir.Authenticate on the same directory; distinct = distinct (frontend, user, password class, verdict)"
	ev.Assumptions = []string{"LDAP is driven at the bind-handler level (the BER layer of the glauth library is exercised only by the thorough end-to-end part)", "credentials outside a transport's limits (empty fields, SASL fields over 256 bytes, NUL/invalid UTF-8 where the transport cannot carry them) only have to be denied"}
	ev.Finish()
}

type c04user struct {
	name, pw string
}

func c04store(ev *verifev.Run, root string, def uint) {
	st, dir := newAgent(root, def, "", "", "")
	lib := verifx.CheapDir(dir, def)
	long := func(n int, c string) string { return strings.Repeat(c, n) }
	users := []c04user{
		{"bob", "secret"}, {"colon", "a:b"}, {"colon2", ":"}, {"uni", "pässwörd𝄞"}, {"nul", "pw\x00x"},
		{"p255", long(255, "x")}, {"p256", long(256, "y")}, {"p257", long(257, "z")},
		{"esc", "q\"\\/\bé "}, {"sp", " lead and trail "}, {"al@x.org", "alpw"}, {"al", "other"},
		{"carl", "carl-2"}, {"admin1", "adm"}, {"tnul", "tail\x00"}, {"tlf", "line\n"},
		// the same word in two encodings, and bytes that are text in no encoding
		{"latin", "caf\xe9"}, {"utf", "caf\u00e9"}, {"binpw", "\xff\xfe\x80binary"},
		// long passwords: no transport except saslauthd has a length limit (1 KiB, 5 KiB, and one whose
		// JSON encoding is twice its size)
		{"long1k", long(1100, "k")}, {"long5k", long(5000, "m")}, {"quotes", long(300, "\"\\")},
		// passwords that look like (or contain) an escape sequence of some transport syntax
		{"pct", "100%25sure"}, {"amp", "Tr0ub4dor&3"}, {"plus", "a+b c"}, {"ent", "x&amp;y"},
	}
	for _, u := range users {
		must(lib.AddUser(u.name, u.pw, u.name == "admin1"))
	}
	// histories: update, remove + re-add, set-admin
	must(lib.UpdateUser("bob", "secret"))
	lib.RemoveUser("carl")
	must(lib.AddUser("carl", "carl-2", false))
	must(lib.SetAdmin("sp", true))
	// unsupported and unreadable records (internal error => denial on every frontend)
	must(os.WriteFile(filepath.Join(dir, "dora.user"), []byte("argon2id:1:77:AAAA:AAAA\n"), 0600))
	must(os.Mkdir(filepath.Join(dir, "edir.user"), 0700))
	names := []string{"bob", "Bob", "bob ", "BOB", "nob", "bob@realm", "al@x.org", "al", "al@x.org@corp", "bob@a@b", "al@x.org@", "@bob", "bob@", "@", "al@@x.org", "dora", "edir", "colon", "colon2", "uni", "nul", "p255", "p256", "p257", "esc", "sp", "carl", "admin1", "", "tnul", "tlf", "latin", "utf", "binpw", "long1k", "long5k", "quotes", "pct", "amp", "plus", "ent", "%62ob", "bob%00", "bob\x00", "bob\n", "\x00bob", "tnul\x00"}
	var pws []string
	seen := map[string]bool{}
	addpw := func(p string) {
		if !seen[p] {
			seen[p] = true
			pws = append(pws, p)
		}
	}
	for _, u := range users {
		addpw(u.pw)
		addpw(u.pw + " ")
		addpw(strings.TrimSpace(u.pw))
		addpw(strings.ToUpper(u.pw))
		// bytes a transport might strip or add at either end
		addpw(u.pw + "\x00")
		addpw(u.pw + "\n")
		addpw("\x00" + u.pw)
		addpw(strings.TrimRight(u.pw, "\x00\r\n"))
		// the URL-escaped and -unescaped readings
		addpw(url.QueryEscape(u.pw))
		addpw(url.PathEscape(u.pw))
		if un, err := url.PathUnescape(u.pw); err == nil {
			addpw(un)
		}
		if un, err := url.QueryUnescape(u.pw); err == nil {
			addpw(un)
		}
	}
	addpw("")
	addpw("carl-1")
	addpw("AAAA")
	addpw(long(256, "x"))
	addpw(long(257, "y"))
	addpw("pw")
	addpw("pw\x00")
	addpw("caf\ufffd")
	addpw("\u00ff\u00fe\u0080binary") // the Latin-1 reading of binpw's password, as UTF-8

	// frontends
	mux, err := newWebHandler(st)
	must(err)
	sock := filepath.Join(root, "sasl.sock")
	go runSaslAuthSocket(sock, st) //nolint:errcheck
	for i := 0; ; i++ {
		if c, err := net.Dial("unix", sock); err == nil {
			c.Close()
			break
		}
		if i > 2000 {
			must(fmt.Errorf("sasl socket did not come up"))
		}
		time.Sleep(time.Millisecond)
	}
	cl := sasl.NewClient(sock)
	lh := ldapHandler{store: st}
	bin := os.Getenv("VERIF_AGENT_BIN")
	cf := filepath.Join(root, "store.yaml")

	storeBefore := verifx.Snap(dir)
	defer func() {
		// with upgrades off no authentication through any frontend modifies the store
		if after := verifx.Snap(dir); !after.Equal(storeBefore) {
			ev.Violation("authentication-modified-store", fmt.Sprintf("[default set %d] the store changed while only authentication requests were served: %s", def, storeBefore.Diff(after)), nil)
		}
	}()
	for _, name := range names {
		for _, pw := range pws {
			ref := func(n string) bool {
				ok, _, _, _, _ := lib.Authenticate(n, pw)
				return ok
			}
			check := func(frontend string, got bool, want bool, inLimits bool, detail string) {
				ev.Add("evaluations", 1)
				cls := "other"
				for _, u := range users {
					if u.pw == pw {
						cls = "pw-of-" + u.name
					}
				}
				ev.Distinct(fmt.Sprintf("%s|%s|%s|%v", frontend, name, cls, got))
				if !inLimits {
					want = false
				}
				if got != want {
					k := "accepts-what-store-refuses"
					if want {
						k = "refuses-what-store-accepts"
					}
					ev.Violation(k+":"+frontend, fmt.Sprintf("[default set %d] frontend %s, user %s, password %s: frontend says %v, store says %v %s", def, frontend, verifx.Q(name), verifx.Q(pw), got, want, detail),
						map[string]any{"frontend": frontend, "user": name, "password": []byte(pw), "default": def})
				}
			}
			// --- saslauthd (real unix socket, bundled client)
			if len(name) <= 256 && len(pw) <= 256 {
				ok, _, err := cl.Auth(name, pw, "svc", "realm")
				inl := name != "" && pw != ""
				if err != nil && inl {
					ev.Violation("sasl-transport-error", fmt.Sprintf("sasl client error for user %s pw %s: %v", verifx.Q(name), verifx.Q(pw), err), nil)
				}
				check("sasl", ok, ref(name), inl, "")
			} else {
				_, _, err := cl.Auth(name, pw, "svc", "realm")
				if err == nil {
					ev.Violation("sasl-overlong-sent", "client sent an over-long field", nil)
				}
			}
			// --- HTTP basic-auth (user names without ':')
			if !strings.Contains(name, ":") && name != "" {
				code, _ := post(mux, "/basic-auth", nil, [2]string{name, pw})
				check("basic-auth", code == 200, ref(name), true, fmt.Sprintf("(status %d)", code))
			}
			// --- HTTP API authenticate (valid UTF-8 only)
			if utf8.ValidString(name) && utf8.ValidString(pw) {
				b, _ := json.Marshal(map[string]string{"username": name, "password": pw})
				code, resp := post(mux, "/api/authenticate", b, [2]string{})
				var ar webAuthenticateResponse
				json.Unmarshal(resp, &ar) //nolint:errcheck
				check("api-authenticate", code == 200 && ar.Session != "", ref(name), name != "" && pw != "", fmt.Sprintf("(status %d)", code))
			}
			// --- LDAP simple bind: the name up to the first '@'
			{
				code, _ := lh.Bind(name, pw, nil)
				cut, _, _ := strings.Cut(name, "@")
				check("ldap-bind", code == 0, ref(cut), true, "")
			}
		}
	}
	// --- histories: every frontend follows the store immediately through management operations
	{
		type fe struct {
			name string
			ask  func(user, pw string) bool
		}
		fes := []fe{
			{"sasl", func(u, p string) bool { ok, _, _ := cl.Auth(u, p, "svc", ""); return ok }},
			{"basic-auth", func(u, p string) bool { c, _ := post(mux, "/basic-auth", nil, [2]string{u, p}); return c == 200 }},
			{"api-authenticate", func(u, p string) bool {
				b, _ := json.Marshal(map[string]string{"username": u, "password": p})
				c, _ := post(mux, "/api/authenticate", b, [2]string{})
				return c == 200
			}},
			{"ldap-bind", func(u, p string) bool { c, _ := lh.Bind(u+"@x", p, nil); return c == 0 }},
		}
		steps := []struct {
			name string
			do   func()
		}{
			{"initial", func() {}},
			{"after update", func() { must(lib.UpdateUser("hist", "second")) }},
			{"after set-admin", func() { must(lib.SetAdmin("hist", true)) }},
			{"after remove", func() { lib.RemoveUser("hist") }},
			{"after re-add with the first password", func() { must(lib.AddUser("hist", "first", false)) }},
			{"after update back", func() { must(lib.UpdateUser("hist", "third")) }},
			{"after remove again", func() { lib.RemoveUser("hist") }},
		}
		for _, f := range fes {
			lib.RemoveUser("hist")
			must(lib.AddUser("hist", "first", false))
			for _, stp := range steps {
				stp.do()
				for _, pw := range []string{"first", "second", "third"} {
					// ask twice: a positive or negative answer must not be remembered
					for rep := 0; rep < 2; rep++ {
						want, _, _, _, _ := lib.Authenticate("hist", pw)
						got := f.ask("hist", pw)
						ev.Add("evaluations", 1)
						ev.Distinct(fmt.Sprintf("hist|%s|%s|%s|%v", f.name, stp.name, pw, got))
						if got != want {
							ev.Violation("verdict-does-not-follow-store-state:"+f.name, fmt.Sprintf("[default set %d] frontend %s, %s: user hist password %q: frontend says %v, store says %v", def, f.name, stp.name, pw, got, want),
								map[string]any{"frontend": f.name, "step": stp.name, "password": pw})
						}
					}
				}
			}
		}
		lib.RemoveUser("hist")
	}
	// --- command line: exit status 0 / 1 / 3 (subset: argv cannot carry NUL or empty values)
	if bin != "" {
		n := 0
		for _, name := range []string{"bob", "Bob", "nob", "colon", "uni", "p257", "sp", "dora", "al@x.org", "admin1"} {
			for _, pw := range []string{"secret", "a:b", "pässwörd𝄞", strings.Repeat("z", 257), " lead and trail ", "lead and trail", "alpw", "adm", "wrong"} {
				cmd := exec.Command(bin, "--store", cf, "authenticate", name, pw)
				cmd.Env = nil
				for _, e := range os.Environ() {
					if !strings.HasPrefix(e, "WHAWTY_AUTH_") {
						cmd.Env = append(cmd.Env, e)
					}
				}
				err := cmd.Run()
				code := 0
				if ee, ok := err.(*exec.ExitError); ok {
					code = ee.ExitCode()
				} else if err != nil {
					must(err)
				}
				ok, _, _, _, _ := lib.Authenticate(name, pw)
				ev.Add("evaluations", 1)
				ev.Distinct(fmt.Sprintf("cli|%s|%d", name, code))
				if (code == 0) != ok {
					ev.Violation("cli-verdict", fmt.Sprintf("`authenticate %s %s` exit status %d, store says %v", verifx.Q(name), verifx.Q(pw), code, ok), map[string]any{"user": name, "password": pw})
				}
				if !ok && code != 1 && code != 3 {
					ev.Violation("cli-exit-code", fmt.Sprintf("denied login exits with %d (want 1 or 3)", code), nil)
				}
				n++
			}
		}
		ev.Sample(map[string]any{"cli_runs": n})
	}
	ev.Sample(map[string]any{"default": def, "users": len(users), "names": len(names), "passwords": len(pws)})
}
