package main

// C17 — no password failing the configured policy is ever stored.
// Exhaustive product: conditions (score/entropy/time x thresholds) x passwords x user names
// x write paths (agent Init/Add/Update, HTTP add / update by admin session, own session,
// old password, local hash upgrade, command line); reference verdict = zxcvbn evaluated
// directly; plus the grammar of policy configuration strings.

import (
	"encoding/json"
	"fmt"
	"os"
	"os/exec"
	"path/filepath"
	"strconv"
	"strings"
	"testing"

	zxcvbn "github.com/nbutton23/zxcvbn-go"

	"github.com/whawty/auth/internal/verifev"
	"github.com/whawty/auth/internal/verifx"
)

func refPolicy(cond string, pw, user string) bool {
	f := strings.Fields(cond)
	th, _ := strconv.ParseUint(f[2], 10, 64)
	s := zxcvbn.PasswordStrength(pw, []string{user, "whawty"})
	switch f[0] {
	case "score":
		return s.Score >= int(th)
	case "entropy":
		return s.Entropy >= float64(th)
	}
	return s.CrackTime >= float64(th)
}

// refGrammar: is (type, condition) a valid policy configuration?
func refGrammar(ptype, cond string) bool {
	if ptype == "" {
		return true
	}
	if ptype != "zxcvbn" {
		return false
	}
	f := strings.Fields(cond)
	if len(f) != 3 || f[1] != ">=" {
		return false
	}
	if f[2] == "" {
		return false
	}
	for _, c := range f[2] {
		if c < '0' || c > '9' {
			return false
		}
	}
	th, err := strconv.ParseUint(f[2], 10, 64)
	if err != nil {
		return false
	}
	switch f[0] {
	case "score":
		return th <= 4
	case "entropy", "time":
		return true
	}
	return false
}

func TestC17(t *testing.T) {
	ev := verifev.New("C17", "policy")
	root := verifx.Scratch("c17")
	defer os.RemoveAll(root)
	conds := []string{"score >= 0", "score >= 1", "score >= 2", "score >= 3", "score >= 4", "entropy >= 0", "entropy >= 20", "entropy >= 60", "time >= 0", "time >= 3600", "time >= 1000000000"}
	pws := []string{"a", "password", "whawty1", "bob1", "correcthorse1", "Tr0ub4dor&3", "correct horse battery staple", "xK9#mQ2$vL7@pR4!nW8^zT5&hJ3*bF6", "qwerty123", "aaaaaaaaaaaaaaaa",
		// long but weak passwords (a policy must not be skipped for "expensive" inputs)
		strings.Repeat("a", 129), strings.Repeat("password", 17)}
	unames := []string{"bob", "correcthorse"}
	if !ev.Thorough() {
		conds = []string{"score >= 0", "score >= 2", "score >= 3", "score >= 4", "entropy >= 20", "entropy >= 60", "time >= 3600", "time >= 1000000000"}
	}
	bin := os.Getenv("VERIF_AGENT_BIN")
	n := 0
	for ci, cond := range conds {
		dirRoot := filepath.Join(root, fmt.Sprintf("c%d", ci))
		st, dir := newAgent(dirRoot, 1, "local", cond, "")
		lib := verifx.CheapDir(dir, 1)
		lib2 := verifx.CheapDir(dir, 2)
		// an existing admin (written by the library, i.e. not subject to the policy)
		must(lib.AddUser("root", "rootpw", true))
		mux, err := newWebHandler(st)
		must(err)
		tAdmin := login(mux, "root", "rootpw")
		for _, un := range unames {
			for _, pw := range pws {
				want := refPolicy(cond, pw, un)
				type path struct {
					name string
					run  func() (accepted bool)
					user string
				}
				// every path starts from: user `un` exists with password "Initial-pw-1" (set 2 = upgradeable)
				reset := func(exists bool) verifx.Snapshot {
					lib.RemoveUser(un)
					if exists {
						must(lib2.AddUser(un, "Initial-pw-1", false))
					}
					return verifx.Snap(dir)
				}
				postJ := func(ep string, f map[string]any) bool {
					b, _ := json.Marshal(f)
					code, _ := post(mux, "/api/"+ep, b, [2]string{})
					return code == 200
				}
				paths := []struct {
					name   string
					exists bool
					run    func() bool
				}{
					{"agent.Add", false, func() bool { return st.Add(un, pw, false) == nil }},
					{"agent.Update", true, func() bool { return st.Update(un, pw) == nil }},
					{"api.add(admin)", false, func() bool { return postJ("add", map[string]any{"session": tAdmin, "username": un, "password": pw}) }},
					{"api.update(admin-session)", true, func() bool {
						return postJ("update", map[string]any{"session": tAdmin, "username": un, "newpassword": pw})
					}},
					{"api.update(own-session)", true, func() bool {
						tok := login(mux, un, "Initial-pw-1")
						return postJ("update", map[string]any{"session": tok, "username": un, "newpassword": pw})
					}},
					{"api.update(old-password)", true, func() bool {
						return postJ("update", map[string]any{"username": un, "oldpassword": "Initial-pw-1", "newpassword": pw})
					}},
				}
				for _, p := range paths {
					before := reset(p.exists)
					acc := p.run()
					// flush a possibly queued local upgrade (own-session login): FIFO behind it
					st.Update("root", "rootpw") //nolint:errcheck
					n++
					ev.Add("evaluations", 1)
					ev.Distinct(fmt.Sprintf("%s|%s|%v|%v", cond, p.name, want, acc))
					viol := func(kind, format string, a ...any) {
						ev.Violation(kind+":"+p.name, fmt.Sprintf("[policy %q, user %s, password %s, path %s] ", cond, un, verifx.Q(pw), p.name)+fmt.Sprintf(format, a...),
							map[string]any{"policy": cond, "user": un, "password": pw, "path": p.name})
					}
					stored, _, _, _, _ := lib.Authenticate(un, pw)
					if !want {
						if acc {
							viol("weak-password-accepted", "request succeeded although the policy refuses the password")
						}
						if stored {
							viol("weak-password-stored", "the refused password now authenticates")
						}
						after := verifx.Snap(dir)
						delete(after, "root.admin")
						b2 := verifx.Snapshot{}
						for k, v := range before {
							if k != "root.admin" {
								b2[k] = v
							}
						}
						// a login-triggered upgrade of the OLD (policy-conforming or not) password may
						// legitimately rewrite the record; only the password must not change
						loginPath := strings.Contains(p.name, "own-session") || strings.Contains(p.name, "old-password")
						if !after.Equal(b2) && !loginPath {
							viol("refused-request-changed-store", "store changed: %s", b2.Diff(after))
						}
						if loginPath && p.exists {
							// the login with the old password may have upgraded its hash; the password itself must be unchanged
							if ok, adm, _, _, _ := lib.Authenticate(un, "Initial-pw-1"); !ok || adm || len(after) != len(b2) {
								viol("refused-request-changed-store", "old password no longer valid or files added/removed: %s", b2.Diff(after))
							}
						}
					} else {
						if !acc || !stored {
							viol("good-password-refused", "accepted=%v stored=%v although the policy is satisfied", acc, stored)
						}
					}
				}
				// local hash upgrade: a login never stores a password the policy refuses
				{
					lib.RemoveUser(un)
					must(lib2.AddUser(un, pw, false)) // pre-existing record under the old set
					before := verifx.Snap(dir)
					ok, _, _, _ := st.Authenticate(un, pw)
					st.Update("root", "rootpw") //nolint:errcheck
					after := verifx.Snap(dir)
					ev.Add("evaluations", 1)
					rec := after[un+".user"]
					upgraded := strings.Contains(rec, ":1:") && rec != before[un+".user"]
					ev.Distinct(fmt.Sprintf("%s|upgrade|%v|%v", cond, want, upgraded))
					if !ok {
						ev.Violation("upgrade-login-failed", fmt.Sprintf("login of %s with its password failed", un), nil)
					}
					if !want && upgraded {
						ev.Violation("weak-password-stored:local-upgrade", fmt.Sprintf("[policy %q] hash upgrade re-stored password %s of %s which the policy refuses", cond, verifx.Q(pw), un),
							map[string]any{"policy": cond, "user": un, "password": pw})
					}
					if want && !upgraded {
						ev.Violation("upgrade-skipped", fmt.Sprintf("[policy %q] policy-conforming password %s of %s was not upgraded on an idle agent", cond, verifx.Q(pw), un), nil)
					}
				}
			}
		}
		// the same password for two different users in direct succession (the verdict depends on the
		// user name as well: nothing remembered from the previous request may decide the next one)
		for _, pw := range pws {
			for _, pair := range [][2]string{{"bob", "correcthorse"}, {"correcthorse", "bob"}, {"bob", "bob"}} {
				lib.RemoveUser("bob")
				lib.RemoveUser("correcthorse")
				for k, un := range pair {
					if k == 1 && pair[0] == pair[1] {
						lib.RemoveUser(un)
					}
					want := refPolicy(cond, pw, un)
					acc := st.Add(un, pw, false) == nil
					stored, _, _, _, _ := lib.Authenticate(un, pw)
					ev.Add("evaluations", 1)
					ev.Distinct(fmt.Sprintf("%s|pair|%d|%v|%v", cond, k, want, acc))
					if acc != want || stored != want {
						kind := "weak-password-accepted:in-succession"
						if want {
							kind = "good-password-refused:in-succession"
						}
						ev.Violation(kind, fmt.Sprintf("[policy %q] add(%s, %s) directly after add(%s, same password): accepted=%v stored=%v, the policy says %v", cond, un, verifx.Q(pw), pair[0], acc, stored, want),
							map[string]any{"policy": cond, "users": pair, "password": pw})
					}
				}
			}
		}
		lib.RemoveUser("bob")
		lib.RemoveUser("correcthorse")
		// agent Init on an empty store + CLI paths (one user name)
		if bin != "" {
			for _, pw := range pws {
				want := refPolicy(cond, pw, "bob")
				for _, c := range []string{"init", "add", "update"} {
					cdir := filepath.Join(dirRoot, "cli")
					os.RemoveAll(cdir)
					must(os.MkdirAll(cdir, 0700))
					cl := verifx.CheapDir(cdir, 1)
					if c != "init" {
						must(cl.AddUser("root", "rootpw", true))
					}
					if c == "update" {
						must(cl.AddUser("bob", "Initial-pw-1", false))
					}
					cf := filepath.Join(dirRoot, "cli.yaml")
					must(os.WriteFile(cf, []byte(verifx.CheapConfigYAML(cdir, 1)), 0600))
					before := verifx.Snap(cdir)
					cmd := exec.Command(bin, "--store", cf, "--policy-type", "zxcvbn", "--policy-condition", cond, c, "bob", pw)
					cmd.Env = nil
					for _, e := range os.Environ() {
						if !strings.HasPrefix(e, "WHAWTY_AUTH_") {
							cmd.Env = append(cmd.Env, e)
						}
					}
					err := cmd.Run()
					ev.Add("evaluations", 1)
					acc := err == nil
					stored, _, _, _, _ := cl.Authenticate("bob", pw)
					ev.Distinct(fmt.Sprintf("%s|cli.%s|%v|%v", cond, c, want, acc))
					if !want && (acc || stored || !verifx.Snap(cdir).Equal(before)) {
						ev.Violation("weak-password-accepted:cli."+c, fmt.Sprintf("[policy %q] `%s bob %s`: exit ok=%v stored=%v", cond, c, verifx.Q(pw), acc, stored), map[string]any{"policy": cond, "cmd": c, "password": pw})
					}
					if want && (!acc || !stored) {
						ev.Violation("good-password-refused:cli."+c, fmt.Sprintf("[policy %q] `%s bob %s`: exit ok=%v stored=%v", cond, c, verifx.Q(pw), acc, stored), nil)
					}
				}
			}
		}
	}
	// agent-level Init path (in-process)
	for _, cond := range []string{"score >= 3", "entropy >= 60"} {
		for _, pw := range pws {
			r := filepath.Join(root, "init")
			os.RemoveAll(r)
			st, dir := newAgent(r, 1, "", cond, "")
			err := st.Init("bob", pw)
			want := refPolicy(cond, pw, "bob")
			ev.Add("evaluations", 1)
			ents, _ := os.ReadDir(dir)
			if !want && (err == nil || len(ents) != 0) {
				ev.Violation("weak-password-accepted:agent.Init", fmt.Sprintf("[policy %q] Init(bob,%s): err=%v entries=%d", cond, verifx.Q(pw), err, len(ents)), nil)
			}
			if want && err != nil {
				ev.Violation("good-password-refused:agent.Init", fmt.Sprintf("[policy %q] Init(bob,%s): %v", cond, verifx.Q(pw), err), nil)
			}
		}
	}
	// policy configuration grammar
	heads := []string{"score", "entropy", "time", "foo", "Score"}
	opers := []string{">=", ">", "=", "=>", "<="}
	vals := []string{"0", "4", "5", "-1", "x", "1.5", "18446744073709551615", "18446744073709551616", "+3", "0x2", "03"}
	var strs []string
	for _, h := range heads {
		for _, o := range opers {
			for _, v := range vals {
				strs = append(strs, h+" "+o+" "+v, h+"  "+o+"\t"+v+" ")
			}
		}
	}
	strs = append(strs, "", "score", "score >=", "score >= 3 4", "score>=3", ">= 3", "score >= 3 # c", "   ")
	cfgdir := filepath.Join(root, "g")
	must(os.MkdirAll(filepath.Join(cfgdir, "store"), 0700))
	cf := filepath.Join(cfgdir, "store.yaml")
	must(os.WriteFile(cf, []byte(verifx.CheapConfigYAML(filepath.Join(cfgdir, "store"), 1)), 0600))
	for _, ptype := range []string{"zxcvbn", "", "ZXCVBN", "none", "zxcvbn "} {
		for _, s := range strs {
			_, err := NewStore(cf, "", ptype, s, "")
			want := refGrammar(ptype, s)
			ev.Add("evaluations", 1)
			ev.Distinct(fmt.Sprintf("grammar|%s|%v|%v", ptype, want, err == nil))
			if want != (err == nil) {
				k := "bad-policy-config-accepted"
				if want {
					k = "good-policy-config-refused"
				}
				ev.Violation(k, fmt.Sprintf("NewStore with policy type %q condition %q: err=%v, reference valid=%v", ptype, s, err, want), map[string]any{"type": ptype, "condition": s})
			}
		}
	}
	// the binary refuses to start with an unparsable policy
	if bin != "" {
		for _, s := range []string{"score > 3", "foo >= 1", "score >= 9", ""} {
			cmd := exec.Command(bin, "--store", cf, "--policy-type", "zxcvbn", "--policy-condition", s, "--do-check=false", "list")
			if err := cmd.Run(); err == nil {
				ev.Violation("binary-starts-with-bad-policy", fmt.Sprintf("binary ran `list` with policy condition %q", s), nil)
			}
			ev.Add("evaluations", 1)
		}
	}
	ev.Sample(map[string]any{"conditions": conds, "passwords": pws, "paths": "agent.Add agent.Update api.add api.update(admin|own|oldpw) local-upgrade agent.Init cli.init cli.add cli.update"})
	ev.Rule = fmt.Sprintf("%d conditions x %d passwords x %d user names x 6 in-process write paths + local upgrade + 3 CLI paths; %d policy configuration strings x 5 policy types; reference = zxcvbn evaluated directly with the statement's comparison; distinct = distinct (condition, path, reference verdict, observed verdict)", len(conds), len(pws), len(unames), len(strs))
	ev.Assumptions = []string{"the zxcvbn library itself is the reference for password strength (the property is about the wiring of the policy into every write path)"}
	ev.Finish()
}
