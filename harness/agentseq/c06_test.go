package main

// C06 — web API: management actions require the right session or password.
// Explicit-state search over request sequences: in every reached store state the FULL
// matrix endpoint x credential kind x target x body shape is sent through the real
// handler mux and compared with a reference authorisation model; every effective request
// yields a successor state (breadth-first, deduplicated on the abstract store state).

import (
	"bytes"
	"encoding/base64"
	"encoding/json"
	"fmt"
	"net/http"
	"net/http/httptest"
	"os"
	"sort"
	"strings"
	"testing"
	"time"

	"github.com/whawty/auth/internal/verifev"
	"github.com/whawty/auth/internal/verifmc/vtime"
	"github.com/whawty/auth/internal/verifx"
)

type c06user struct {
	pw    string
	admin bool
}

type c06state map[string]c06user

func (s c06state) key() string {
	var ks []string
	for u, r := range s {
		ks = append(ks, fmt.Sprintf("%s=%s,%v", u, r.pw, r.admin))
	}
	sort.Strings(ks)
	return strings.Join(ks, ";")
}

func (s c06state) clone() c06state {
	n := c06state{}
	for k, v := range s {
		n[k] = v
	}
	return n
}

type c06cred struct {
	name      string
	session   string
	valid     bool // a valid session of THIS instance, unexpired
	sessUser  string
	sessAdmin bool
	oldpw     string // "right" | "wrong" | ""
}

func post(mux http.Handler, path string, body []byte, basic [2]string) (int, []byte) {
	r := httptest.NewRequest("POST", path, bytes.NewReader(body))
	r.Header.Set("Content-Type", "application/json")
	if basic[0] != "" {
		r.SetBasicAuth(basic[0], basic[1])
	}
	w := httptest.NewRecorder()
	func() {
		defer func() {
			if rec := recover(); rec != nil {
				w.Code = -1
				w.Body.WriteString(fmt.Sprint("PANIC: ", rec))
			}
		}()
		mux.ServeHTTP(w, r)
	}()
	return w.Code, w.Body.Bytes()
}

func login(mux http.Handler, user, pw string) string {
	b, _ := json.Marshal(map[string]string{"username": user, "password": pw})
	code, body := post(mux, "/api/authenticate", b, [2]string{})
	var resp webAuthenticateResponse
	json.Unmarshal(body, &resp) //nolint:errcheck
	if code != 200 || resp.Session == "" {
		must(fmt.Errorf("setup login of %s failed: %d %s", user, code, body))
	}
	return resp.Session
}

func TestC06(t *testing.T) {
	ev := verifev.New("C06", "webapi")
	root := verifx.Scratch("c06")
	defer os.RemoveAll(root)
	st, dir := newAgent(root, 1, "", "", "")
	lib := verifx.CheapDir(dir, 1)
	init0 := c06state{"root": {"rootpw", true}, "u": {"upw", false}, "v": {"vpw", false}, "w": {"wpw", true}, "U": {"Upw-upper", false}, "Root": {"Rootpw-upper", false}}
	for n, r := range init0 {
		must(lib.AddUser(n, r.pw, r.admin))
	}
	mux, err := newWebHandler(st)
	must(err)
	mux2, err := newWebHandler(st)
	must(err)
	vtime.SetOffset(0)
	tAdmin := login(mux, "root", "rootpw")
	tUser := login(mux, "u", "upw")
	tUser2 := login(mux, "v", "vpw")
	tDemoted := login(mux, "w", "wpw")
	must(lib.SetAdmin("w", false))
	init0["w"] = c06user{"wpw", false}
	tOther := login(mux2, "root", "rootpw")
	vtime.SetOffset(-601 * time.Second)
	tExpired := login(mux, "root", "rootpw")
	vtime.SetOffset(1000 * time.Second)
	tFuture := login(mux, "root", "rootpw")
	vtime.SetOffset(0)
	// tampered: one bit of the ciphertext flipped
	a, b, _ := strings.Cut(tAdmin, ":")
	raw, _ := base64.URLEncoding.DecodeString(b)
	raw[len(raw)/2] ^= 0x10
	tTampered := a + ":" + base64.URLEncoding.EncodeToString(raw)

	creds := []c06cred{
		{name: "none"},
		{name: "garbage", session: "xx"},
		{name: "garbage-colon", session: "AAAA:BBBB"},
		{name: "short-nonce", session: ":"},
		{name: "tampered-admin", session: tTampered},
		{name: "other-instance-admin", session: tOther},
		{name: "expired-admin", session: tExpired},
		{name: "future-admin", session: tFuture},
		{name: "user-session(u)", session: tUser, valid: true, sessUser: "u"},
		{name: "user-session(v)", session: tUser2, valid: true, sessUser: "v"},
		{name: "admin-session", session: tAdmin, valid: true, sessUser: "root", sessAdmin: true},
		{name: "demoted-admin-session", session: tDemoted, valid: true, sessUser: "w", sessAdmin: true},
		{name: "old-password-wrong", oldpw: "wrong"},
		{name: "old-password-right", oldpw: "right"},
		{name: "admin-session+old-password", session: tAdmin, valid: true, sessUser: "root", sessAdmin: true, oldpw: "right"},
		{name: "user-session+old-password", session: tUser, valid: true, sessUser: "u", oldpw: "right"},
	}
	targets := []string{"u", "v", "root", "zz", "bad/name", "U", "Root", "w"}
	shapes := []string{"ok", "empty-username", "missing-fields", "wrong-types", "not-json", "trailing-garbage", "no-newpassword", "empty-newpassword", "no-password", "empty-password"}
	endpoints := []string{"add", "remove", "update", "set-admin", "list", "list-full"}
	if !ev.Thorough() {
		targets = targets[:7]
	}

	type node struct {
		m    c06state
		snap verifx.Snapshot
		path []string
	}
	start := &node{m: init0, snap: verifx.Snap(dir)}
	seen := map[string]bool{start.m.key(): true}
	frontier := []*node{start}
	maxStates := 8
	if ev.Thorough() {
		maxStates = 60
	}
	ev.Add("states", 1)
	nstates := 1
	for depth := 0; len(frontier) > 0; depth++ {
		var next []*node
		for _, n := range frontier {
			succ := c06matrix(ev, mux, dir, n.m, n.snap, n.path, creds, targets, shapes, endpoints)
			for _, s := range succ {
				k := s.m.key()
				if seen[k] || nstates >= maxStates {
					continue
				}
				seen[k] = true
				nstates++
				ev.Add("states", 1)
				next = append(next, &node{m: s.m, snap: s.snap, path: s.path})
			}
		}
		frontier = next
		ev.Set("bfs_depth", depth)
	}
	if nstates >= maxStates {
		ev.Note("state exploration capped at %d store states (the full matrix is evaluated in each)", maxStates)
	}
	c06auth(ev, mux, dir, init0, start.snap)
	ev.Set("traces_validated_against_impl", ev.Get("transitions"))
	ev.Rule = fmt.Sprintf("in each reached store state the full matrix of %d endpoints x %d credential kinds x %d targets x %d body shapes through the real mux; every effective request is a BFS transition to a successor state (dedup on users/flags/passwords); plus authenticate/basic-auth cells; distinct = distinct (endpoint, credential, target, shape, status, effect) cells", len(endpoints), len(creds), len(targets), len(shapes))
	ev.Assumptions = []string{"tokens are issued once in the setup (admin, two users, admin later demoted, other instance, expired, future-dated, tampered) and reused in every state", "the reference authorisation model is the property statement; a token keeps the admin status it was issued with"}
	ev.Finish()
}

type c06succ struct {
	m    c06state
	snap verifx.Snapshot
	path []string
}

func c06matrix(ev *verifev.Run, mux http.Handler, dir string, m c06state, snap verifx.Snapshot, path []string,
	creds []c06cred, targets, shapes, endpoints []string) []c06succ {
	var out []c06succ
	dirty := true
	for _, ep := range endpoints {
		for _, cr := range creds {
			for _, tg := range targets {
				if (ep == "list" || ep == "list-full") && tg != targets[0] {
					continue
				}
				for _, sh := range shapes {
					if (sh == "no-newpassword" || sh == "empty-newpassword") && ep != "update" {
						continue // only /api/update has that field
					}
					if (sh == "no-password" || sh == "empty-password") && ep != "add" {
						continue // only /api/add has that field
					}
					if dirty {
						must(verifx.Restore(dir, snap))
						dirty = false
					}
					body, newpw, adminFlag := c06body(ep, cr, tg, sh, m)
					code, resp := post(mux, "/api/"+ep, body, [2]string{})
					ev.Add("evaluations", 1)
					ev.Add("transitions", 1)
					// ---- reference model
					wellFormed := sh == "ok" || sh == "trailing-garbage" || sh == "no-newpassword" || sh == "empty-newpassword"
					allowed := false
					switch ep {
					case "update":
						switch {
						case !wellFormed:
						case cr.session != "" && cr.oldpw == "":
							allowed = cr.valid && (cr.sessAdmin || cr.sessUser == tg) && newpw != ""
						case cr.session == "" && cr.oldpw == "right":
							_, ex := m[tg]
							allowed = ex
						}
					default:
						allowed = wellFormed && cr.valid && cr.sessAdmin
					}
					want := m.clone()
					wantOK := false // status 200 expected
					if allowed {
						_, ex := m[tg]
						validName := !strings.Contains(tg, "/")
						switch ep {
						case "add":
							if !ex && validName {
								want[tg] = c06user{newpw, adminFlag}
								wantOK = true
							}
						case "remove":
							delete(want, tg)
							wantOK = true
						case "update":
							if ex {
								if newpw != "" {
									want[tg] = c06user{newpw, m[tg].admin}
								}
								wantOK = true
							}
						case "set-admin":
							if ex {
								want[tg] = c06user{m[tg].pw, adminFlag}
								wantOK = true
							}
						case "list", "list-full":
							wantOK = true
						}
					}
					after := verifx.Snap(dir)
					cell := fmt.Sprintf("%s|%s|%s|%s", ep, cr.name, tg, sh)
					replay := map[string]any{"path": path, "endpoint": ep, "credential": cr.name, "target": tg, "shape": sh, "body": string(body), "state": m.key()}
					viol := func(kind, format string, a ...any) {
						ev.Violation(kind+":"+ep+":"+cr.name, fmt.Sprintf("[state %s after %v] %s with credential %s, target %s, body %s: ", m.key(), path, ep, cr.name, tg, sh)+fmt.Sprintf(format, a...), replay)
					}
					if code == -1 {
						viol("handler-panic", "handler panicked: %s", resp)
					}
					changed := !after.Equal(snap)
					if changed {
						dirty = true
					}
					if !allowed {
						if code == 200 {
							viol("unauthorised-success", "status 200 for a request that must be refused: %s", resp)
						}
						if changed {
							viol("unauthorised-effect", "refused request changed the store: %s", snap.Diff(after))
						}
						if leaksList(resp) {
							viol("list-disclosed", "refused request discloses user list: %s", resp)
						}
						if n := leaksNames(resp, m, tg, cr.sessUser); n != "" {
							viol("list-disclosed", "refused request discloses the existence of user %s: %s", n, resp)
						}
					} else {
						// directory effect must equal the model effect
						got := c06read(dir, want, m)
						if got != want.key() {
							viol("wrong-effect", "store after request is %q, model says %q (status %d %s)", got, want.key(), code, resp)
						}
						if wantOK && code != 200 && !(ep == "remove" && strings.Contains(tg, "/")) {
							viol("authorised-refused", "status %d for an authorised, applicable request: %s", code, resp)
						}
						if !wantOK && code == 200 && !strings.Contains(tg, "/") {
							viol("inapplicable-success", "status 200 although the operation cannot apply: %s", resp)
						}
						if (ep == "list" || ep == "list-full") && code == 200 {
							var lr struct {
								List map[string]struct {
									Admin bool `json:"admin"`
								} `json:"list"`
							}
							json.Unmarshal(resp, &lr) //nolint:errcheck
							if len(lr.List) != len(m) {
								viol("list-content", "list has %d entries, store has %d users", len(lr.List), len(m))
							}
							for u, r := range m {
								if e, ok := lr.List[u]; !ok || e.Admin != r.admin {
									viol("list-content", "list entry for %s wrong: %+v", u, e)
								}
							}
						}
						if changed && want.key() != m.key() && got == want.key() {
							out = append(out, c06succ{m: want, snap: after, path: append(append([]string{}, path...), cell)})
						}
					}
					ev.Distinct(fmt.Sprintf("%s|%d|%v", cell, code, changed))
					if ev.Get("evaluations")%1777 == 3 {
						ev.Sample(map[string]any{"endpoint": ep, "credential": cr.name, "target": tg, "shape": sh, "status": code, "allowed_by_model": allowed, "store_changed": changed})
					}
				}
			}
		}
	}
	must(verifx.Restore(dir, snap))
	return out
}

// leaksList: the body (possibly several JSON documents or trailing text) contains a user list.
func leaksList(resp []byte) bool {
	dec := json.NewDecoder(bytes.NewReader(resp))
	for {
		var x map[string]json.RawMessage
		if err := dec.Decode(&x); err != nil {
			break
		}
		if l, ok := x["list"]; ok && string(l) != "null" && string(l) != "{}" {
			return true
		}
	}
	return false
}

// leaksNames: names of users other than the ones the request itself mentions appear in the body.
func leaksNames(resp []byte, m c06state, mentioned ...string) string {
	for u := range m {
		skip := false
		for _, x := range mentioned {
			if strings.EqualFold(x, u) || strings.Contains(strings.ToLower(x), strings.ToLower(u)) {
				skip = true
			}
		}
		if skip || len(u) < 2 {
			continue
		}
		if bytes.Contains(resp, []byte(`"`+u+`"`)) {
			return u
		}
	}
	return ""
}

// c06read reads the store back through the library and renders it like c06state.key();
// passwords are identified among the model's old and new passwords.
func c06read(dir string, want, old c06state) string {
	d := verifx.CheapDir(dir, 1)
	cand := map[string]bool{}
	for _, r := range want {
		cand[r.pw] = true
	}
	for _, r := range old {
		cand[r.pw] = true
	}
	got := c06state{}
	ents, _ := os.ReadDir(dir)
	for _, e := range ents {
		n := e.Name()
		if n == ".tmp" {
			continue
		}
		user := strings.TrimSuffix(strings.TrimSuffix(n, ".user"), ".admin")
		rec := c06user{pw: "?", admin: strings.HasSuffix(n, ".admin")}
		for p := range cand {
			if ok, _, _, _, _ := d.Authenticate(user, p); ok {
				rec.pw = p
			}
		}
		got[user] = rec
	}
	return got.key()
}

func c06body(ep string, cr c06cred, tg, sh string, m c06state) (body []byte, newpw string, adminFlag bool) {
	newpw = "New-" + ep + "-pw"
	adminFlag = ep == "set-admin" && !m[tg].admin
	f := map[string]any{}
	if cr.session != "" {
		f["session"] = cr.session
	}
	switch ep {
	case "add":
		f["username"], f["password"], f["admin"] = tg, newpw, false
		if cr.oldpw != "" {
			f["oldpassword"] = "whatever"
		}
	case "remove":
		f["username"] = tg
	case "update":
		f["username"], f["newpassword"] = tg, newpw
		switch cr.oldpw {
		case "right":
			if r, ok := m[tg]; ok {
				f["oldpassword"] = r.pw
			} else {
				f["oldpassword"] = "nopw"
			}
		case "wrong":
			f["oldpassword"] = "certainly-wrong"
		}
	case "set-admin":
		f["username"], f["admin"] = tg, adminFlag
	}
	if ep != "update" && ep != "add" && cr.oldpw != "" {
		f["oldpassword"] = "whatever"
	}
	switch sh {
	case "empty-username":
		if _, has := f["username"]; has {
			f["username"] = ""
		} else {
			f["session"] = ""
		}
	case "missing-fields":
		delete(f, "username")
		delete(f, "password")
		delete(f, "newpassword")
		if ep == "list" || ep == "list-full" {
			delete(f, "session")
		}
	case "no-password":
		delete(f, "password")
	case "empty-password":
		f["password"] = ""
	case "no-newpassword":
		delete(f, "newpassword")
	case "empty-newpassword":
		f["newpassword"] = ""
	case "wrong-types":
		f["username"] = 5
		if ep == "list" || ep == "list-full" {
			f["session"] = []int{1}
		}
	}
	b, _ := json.Marshal(f)
	switch sh {
	case "not-json":
		b = []byte("username=" + tg + "&session=" + cr.session)
	case "trailing-garbage":
		b = append(b, []byte(" }}garbage")...)
	}
	if (sh == "missing-fields" || sh == "no-newpassword" || sh == "empty-newpassword") && ep == "update" {
		newpw = ""
	}
	return b, newpw, adminFlag
}

// c06auth: token issuance only after successful authentication, naming user + admin flag.
func c06auth(ev *verifev.Run, mux http.Handler, dir string, m c06state, snap verifx.Snapshot) {
	must(verifx.Restore(dir, snap))
	users := []string{"root", "u", "w", "zz", "", "bad/name"}
	for _, u := range users {
		for _, pwk := range []string{"right", "wrong", "empty", "other-users"} {
			pw := "wrong-pw"
			switch pwk {
			case "right":
				pw = m[u].pw
			case "empty":
				pw = ""
			case "other-users":
				pw = m["v"].pw
			}
			ok := pwk == "right" && m[u].pw != ""
			for _, sh := range []string{"ok", "wrong-types", "not-json"} {
				f := map[string]any{"username": u, "password": pw}
				if sh == "wrong-types" {
					f["password"] = 7
				}
				b, _ := json.Marshal(f)
				if sh == "not-json" {
					b = []byte("{username:" + u)
				}
				code, resp := post(mux, "/api/authenticate", b, [2]string{})
				ev.Add("evaluations", 1)
				var ar webAuthenticateResponse
				json.Unmarshal(resp, &ar) //nolint:errcheck
				want := ok && sh == "ok"
				viol := func(kind, format string, a ...any) {
					ev.Violation(kind+":authenticate", fmt.Sprintf("/api/authenticate user %q password %s shape %s: ", u, pwk, sh)+fmt.Sprintf(format, a...), map[string]any{"user": u, "pw": pwk, "shape": sh})
				}
				if !want && (code == 200 || ar.Session != "") {
					viol("token-without-authentication", "status %d session %q", code, ar.Session)
				}
				if want {
					if code != 200 || ar.Session == "" {
						viol("login-refused", "status %d %s", code, resp)
					} else {
						// the token names that user and the current admin status: use it
						lb, _ := json.Marshal(map[string]string{"session": ar.Session})
						lc, _ := post(mux, "/api/list", lb, [2]string{})
						if (lc == 200) != m[u].admin {
							viol("token-admin-flag", "token of %s (admin=%v) gives list status %d", u, m[u].admin, lc)
						}
						if ar.Username != u || ar.IsAdmin != m[u].admin {
							viol("login-response", "response names %q admin=%v", ar.Username, ar.IsAdmin)
						}
					}
				}
				if sh == "ok" {
					bc, _ := post(mux, "/basic-auth", nil, [2]string{u, pw})
					if u != "" && (bc == 200) != ok {
						viol("basic-auth", "basic-auth status %d, want success=%v", bc, ok)
					}
				}
				ev.Distinct(fmt.Sprintf("auth|%s|%s|%s|%d", u, pwk, sh, code))
			}
		}
	}
	if after := verifx.Snap(dir); !after.Equal(snap) {
		ev.Violation("authenticate-mutates", "authenticate/basic-auth requests changed the store: "+snap.Diff(after), nil)
	}
}
