package main

// C07 — session tokens are unforgeable, instance-bound, identity-bound and expire.
// Exhaustive neighbourhood enumeration around issued tokens (every single-bit flip of the
// decoded content, every single-character substitution of the text, every splice, every
// truncation), chosen plaintexts sealed with the factory's own AEAD, and every age on both
// sides of the lifetime under the virtual clock.

import (
	"bytes"
	"encoding/base64"
	"fmt"
	"math"
	"math/big"
	"strings"
	"testing"
	"time"

	"github.com/whawty/auth/internal/verifev"
	"github.com/whawty/auth/internal/verifmc/vtime"
)

type issued struct {
	fac   int
	user  string
	admin bool
	at    time.Duration // virtual offset at issue
	text  string
	nonce []byte
	ct    []byte
}

func decodeTok(s string) (nonce, ct []byte, ok bool) {
	a, b, found := strings.Cut(s, ":")
	if !found {
		return nil, nil, false
	}
	n, e1 := base64.URLEncoding.DecodeString(a)
	c, e2 := base64.URLEncoding.DecodeString(b)
	if e1 != nil || e2 != nil {
		return nil, nil, false
	}
	return n, c, true
}

func TestC07(t *testing.T) {
	ev := verifev.New("C07", "tokens")
	lifetimes := []time.Duration{600 * time.Second, 1 * time.Second}
	var facs []*webSessionFactory
	for _, l := range lifetimes {
		f, err := NewWebSessionFactory(l)
		must(err)
		facs = append(facs, f)
	}
	users := []string{"a", "bob", "a.very-long_user@name.example.org-0123456"}
	var toks []issued
	vtime.SetOffset(0)
	for round, at := range []time.Duration{0, 3 * time.Second, 200 * time.Second} {
		_ = round
		vtime.SetOffset(at)
		for fi, f := range facs {
			for _, u := range users {
				for _, adm := range []bool{false, true} {
					st, es, text := f.Generate(u, adm)
					if st != 200 {
						ev.Violation("generate-failed", fmt.Sprintf("Generate(%s,%v) -> %d %s", u, adm, st, es), nil)
						continue
					}
					n, c, ok := decodeTok(text)
					if !ok {
						ev.Violation("token-format", "issued token is not nonce:ciphertext in base64url: "+text, nil)
						continue
					}
					toks = append(toks, issued{fi, u, adm, at, text, n, c})
				}
			}
		}
	}
	byContent := map[string]issued{}
	nonces := map[string]bool{}
	for _, tk := range toks {
		byContent[fmt.Sprintf("%d|%x|%x", tk.fac, tk.nonce, tk.ct)] = tk
		if nonces[string(tk.nonce)] {
			ev.Violation("nonce-reused", fmt.Sprintf("two issued tokens share the nonce %x", tk.nonce), nil)
		}
		nonces[string(tk.nonce)] = true
	}
	// present(fi, text, now): oracle for one presentation
	present := func(kind string, fi int, text string, now time.Duration) {
		vtime.SetOffset(now)
		var st int
		var user string
		var adm bool
		func() {
			defer func() {
				if r := recover(); r != nil {
					st = -1
					ev.Violation("check-panics:"+kind, fmt.Sprintf("Check(%q) (%s) panicked: %v", text, kind, r), map[string]any{"kind": kind, "token": text})
				}
			}()
			st, _, user, adm = facs[fi].Check(text)
		}()
		ev.Add("evaluations", 1)
		if st != 200 {
			return
		}
		n, c, ok := decodeTok(text)
		tk, known := byContent[fmt.Sprintf("%d|%x|%x", fi, n, c)]
		switch {
		case !ok || !known:
			ev.Violation("forged-token-accepted:"+kind, fmt.Sprintf("factory %d accepted %q (%s) which decodes to no token it issued; returned user=%q admin=%v", fi, text, kind, user, adm),
				map[string]any{"kind": kind, "token": text})
		case now-tk.at < 0 || now-tk.at > lifetimes[fi]:
			ev.Violation("stale-token-accepted:"+kind, fmt.Sprintf("token issued at +%v accepted at +%v (lifetime %v)", tk.at, now, lifetimes[fi]), map[string]any{"kind": kind, "token": text})
		case user != tk.user || adm != tk.admin:
			ev.Violation("identity-changed:"+kind, fmt.Sprintf("token issued for (%s,%v) accepted as (%s,%v)", tk.user, tk.admin, user, adm), map[string]any{"kind": kind, "token": text})
		}
		ev.Distinct(kind + "|accepted|" + text)
	}
	// 1. every issued token is accepted inside its lifetime with its identity; ages
	for _, tk := range toks {
		L := lifetimes[tk.fac]
		for _, age := range []time.Duration{-1 * time.Second, 0, 1 * time.Second, L - time.Second, L, L + time.Second, 10 * L} {
			now := tk.at + age
			vtime.SetOffset(now)
			st, es, user, adm := facs[tk.fac].Check(tk.text)
			ev.Add("evaluations", 1)
			inside := age >= 0 && age <= L
			ev.Distinct(fmt.Sprintf("age|%v|%v|%d", age, L, st))
			if inside && (st != 200 || user != tk.user || adm != tk.admin) {
				ev.Violation("valid-token-refused", fmt.Sprintf("token for (%s,%v) at age %v (lifetime %v): status %d %s user=%q admin=%v", tk.user, tk.admin, age, L, st, es, user, adm), nil)
			}
			if !inside && st == 200 {
				k := "expired-token-accepted"
				if age < 0 {
					k = "future-token-accepted"
				}
				ev.Violation(k, fmt.Sprintf("token at age %v accepted (lifetime %v)", age, L), map[string]any{"token": tk.text, "age": age.String()})
			}
			// other instance
			o := 1 - tk.fac
			if st, _, _, _ := facs[o].Check(tk.text); st == 200 && age >= 0 {
				ev.Violation("other-instance-token-accepted", fmt.Sprintf("factory %d accepted a token issued by factory %d", o, tk.fac), map[string]any{"token": tk.text})
			}
		}
	}
	sel := toks
	if !ev.Thorough() {
		sel = nil
		for i, tk := range toks {
			if i%7 == 0 {
				sel = append(sel, tk)
			}
		}
	}
	alpha := "ABCDEFGHIJKLMNOPQRSTUVWXYZabcdefghijklmnopqrstuvwxyz0123456789-_:=+/"
	for _, tk := range sel {
		now := tk.at
		// 2. every single-bit flip of the decoded content
		raw := append(append([]byte{}, tk.nonce...), tk.ct...)
		for bit := 0; bit < len(raw)*8; bit++ {
			r2 := append([]byte{}, raw...)
			r2[bit/8] ^= 1 << uint(bit%8)
			text := base64.URLEncoding.EncodeToString(r2[:len(tk.nonce)]) + ":" + base64.URLEncoding.EncodeToString(r2[len(tk.nonce):])
			present("bitflip", tk.fac, text, now)
		}
		// 2b. every single-byte insertion and deletion in the decoded nonce and ciphertext, and
		//     1..16 bytes appended / prepended to either part (also parts of other tokens)
		enc := func(n, c []byte) string {
			return base64.URLEncoding.EncodeToString(n) + ":" + base64.URLEncoding.EncodeToString(c)
		}
		ins := func(b []byte, i int, x []byte) []byte {
			return append(append(append([]byte{}, b[:i]...), x...), b[i:]...)
		}
		for i := 0; i <= len(tk.nonce); i++ {
			present("nonce-byte-inserted", tk.fac, enc(ins(tk.nonce, i, []byte{0}), tk.ct), now)
			present("nonce-byte-inserted", tk.fac, enc(ins(tk.nonce, i, []byte{0xff}), tk.ct), now)
			if i < len(tk.nonce) {
				present("nonce-byte-deleted", tk.fac, enc(append(append([]byte{}, tk.nonce[:i]...), tk.nonce[i+1:]...), tk.ct), now)
			}
		}
		for i := 0; i <= len(tk.ct); i++ {
			present("ciphertext-byte-inserted", tk.fac, enc(tk.nonce, ins(tk.ct, i, []byte{0})), now)
			if i < len(tk.ct) {
				present("ciphertext-byte-deleted", tk.fac, enc(tk.nonce, append(append([]byte{}, tk.ct[:i]...), tk.ct[i+1:]...)), now)
			}
		}
		other := toks[(len(toks)/2+3)%len(toks)]
		for k := 1; k <= 16; k++ {
			pad := bytes.Repeat([]byte{byte(k)}, k)
			present("nonce-extended", tk.fac, enc(append(append([]byte{}, tk.nonce...), pad...), tk.ct), now)
			present("nonce-prefixed", tk.fac, enc(append(append([]byte{}, pad...), tk.nonce...), tk.ct), now)
			present("ciphertext-extended", tk.fac, enc(tk.nonce, append(append([]byte{}, tk.ct...), pad...)), now)
			present("ciphertext-prefixed", tk.fac, enc(tk.nonce, append(append([]byte{}, pad...), tk.ct...)), now)
		}
		present("nonce-extended-by-other-nonce", tk.fac, enc(append(append([]byte{}, tk.nonce...), other.nonce...), tk.ct), now)
		present("nonce-extended-by-other-ciphertext", tk.fac, enc(append(append([]byte{}, tk.nonce...), other.ct...), tk.ct), now)
		present("ciphertext-extended-by-other", tk.fac, enc(tk.nonce, append(append([]byte{}, tk.ct...), other.ct...)), now)
		present("nonce-doubled", tk.fac, enc(append(append([]byte{}, tk.nonce...), tk.nonce...), tk.ct), now)
		// 3. every single-character substitution / deletion / insertion of the text
		for i := 0; i < len(tk.text); i++ {
			for _, ch := range alpha {
				if byte(ch) != tk.text[i] {
					present("char-substitution", tk.fac, tk.text[:i]+string(ch)+tk.text[i+1:], now)
				}
			}
			present("char-deletion", tk.fac, tk.text[:i]+tk.text[i+1:], now)
			present("char-insertion", tk.fac, tk.text[:i]+"A"+tk.text[i:], now)
		}
		// 4. truncations and extensions
		for i := 0; i <= len(tk.text); i++ {
			present("prefix", tk.fac, tk.text[:i], now)
			present("suffix", tk.fac, tk.text[i:], now)
		}
		a, b, _ := strings.Cut(tk.text, ":")
		present("halves-swapped", tk.fac, b+":"+a, now)
		present("extended", tk.fac, tk.text+"AAAA", now)
		present("extended-nonce", tk.fac, "AAAA"+tk.text, now)
		// further fields, separators and white space around a valid token
		for _, tail := range []string{":", "::", ":x", ":AAAA", ":" + b, ":" + a + ":" + b, " ", "\n", "=", ":=", "\x00", "%3A"} {
			present("extended-field", tk.fac, tk.text+tail, now)
		}
		for _, head := range []string{":", " ", "x:", a + ":", "\n"} {
			present("prefixed-field", tk.fac, head+tk.text, now)
		}
		present("middle-field", tk.fac, a+"::"+b, now)
		present("middle-field", tk.fac, a+":x:"+b, now)
	}
	// 5. every nonce/ciphertext splice between two tokens (incl. across instances)
	for i, x := range toks {
		for j, y := range toks {
			if i == j {
				continue
			}
			text := base64.URLEncoding.EncodeToString(x.nonce) + ":" + base64.URLEncoding.EncodeToString(y.ct)
			for fi := range facs {
				present("splice", fi, text, y.at)
			}
		}
	}
	for _, s := range []string{"", ":", "a:b", "::", "AAAA:AAAA", "=:="} {
		for fi := range facs {
			present("junk", fi, s, 0)
		}
	}
	// 6. chosen plaintexts sealed with the factory's own key: the plaintext grammar is strict
	vtime.SetOffset(100 * time.Second)
	nowUnix := vtime.Now().Unix()
	for fi, f := range facs {
		for _, pt := range []string{
			fmt.Sprintf("u:TRUE:%d", nowUnix), fmt.Sprintf("u:1:%d", nowUnix), fmt.Sprintf("u:t:%d", nowUnix), fmt.Sprintf("u:True:%d", nowUnix),
			fmt.Sprintf("u:true:%d:x", nowUnix), fmt.Sprintf("u:true: %d", nowUnix), "u:true:-1", "u:true:9e9", "u:true", "u:true:", fmt.Sprintf("u:true:%d ", nowUnix),
			fmt.Sprintf("u:true:0x%x", nowUnix), fmt.Sprintf("u:true:%d", nowUnix+5), fmt.Sprintf("u:true:%d", nowUnix-int64(lifetimes[fi]/time.Second)-1), fmt.Sprintf("u::%d", nowUnix), "",
			fmt.Sprintf("u:false :%d", nowUnix), "u:true:99999999999999999999",
		} {
			nonce, enc, sealable := sealWith(f, pt)
			if !sealable {
				ev.NotExhaustive("the factory's internal sealing function has an unknown signature: chosen plaintexts skipped")
				break
			}
			text := base64.URLEncoding.EncodeToString(nonce) + ":" + base64.URLEncoding.EncodeToString(enc)
			st, _, user, adm := f.Check(text)
			ev.Add("evaluations", 1)
			ev.Distinct("chosen-plaintext|" + pt + fmt.Sprint(st))
			if st == 200 {
				ev.Violation("lenient-plaintext-accepted", fmt.Sprintf("factory %d accepted a sealed plaintext %q as (%s,%v)", fi, pt, user, adm), map[string]any{"plaintext": pt})
			}
		}
	}
	// 6b. well-formed plaintexts with every "interesting" issue time: now +- 2^k seconds, the
	// distances at which second->nanosecond arithmetic wraps (multiples of 2^64 ns and 2^63 ns),
	// the extremes of int64 - accepted exactly when 0 <= now - issued <= lifetime
	for fi, f := range facs {
		L := int64(lifetimes[fi] / time.Second)
		tsSet := map[int64]bool{0: true, 1: true, -1: true, math.MaxInt64: true, math.MinInt64: true, math.MaxInt64 - 1: true, math.MinInt64 + 1: true, math.MaxInt32: true, math.MaxUint32: true}
		for k := 0; k < 63; k++ {
			for _, d := range []int64{-1, 0, 1} {
				tsSet[nowUnix+(int64(1)<<k)+d] = true
				tsSet[nowUnix-(int64(1)<<k)+d] = true
			}
		}
		wrap := []int64{18446744073, 18446744074, 9223372036, 9223372037, 2 * 18446744073, 2*18446744073 + 1, 3 * 18446744073, 4294967296, 4294967, 4295}
		for _, wd := range wrap {
			for _, d := range []int64{-L - 1, -L, -L + 1, -2, -1, 0, 1, 2, L - 1, L, L + 1, L / 2, -L / 2} {
				tsSet[nowUnix+wd+d] = true
				tsSet[nowUnix-wd+d] = true
			}
		}
		for ts := range tsSet {
			age := new(big.Int).Sub(big.NewInt(nowUnix), big.NewInt(ts))
			if age.Cmp(big.NewInt(L)) == 0 {
				continue // the exact end of the lifetime may go either way
			}
			want := age.Sign() >= 0 && age.Cmp(big.NewInt(L)) < 0
			pt := fmt.Sprintf("u:true:%d", ts)
			nonce, enc, sealable := sealWith(f, pt)
			if !sealable {
				ev.NotExhaustive("the factory's internal sealing function has an unknown signature: chosen plaintexts skipped")
				break
			}
			text := base64.URLEncoding.EncodeToString(nonce) + ":" + base64.URLEncoding.EncodeToString(enc)
			st, _, user, adm := f.Check(text)
			ev.Add("evaluations", 1)
			if (st == 200) != want {
				ev.Violation(fmt.Sprintf("issue-time-verdict:accepted=%v", st == 200), fmt.Sprintf("factory %d (lifetime %d s) at time %d: token issued at %d (age %s s) status %d user %q admin %v, want accepted=%v", fi, L, nowUnix, ts, age, st, user, adm, want), map[string]any{"plaintext": pt, "now": nowUnix})
			}
			if st == 200 && (user != "u" || !adm) {
				ev.Violation("issue-time-identity", fmt.Sprintf("token %q accepted as (%s,%v)", pt, user, adm), map[string]any{"plaintext": pt})
			}
		}
		ev.Distinct(fmt.Sprintf("issue-times|%d|%d", fi, len(tsSet)))
	}
	// 7. nonce uniqueness over many issues (statistical clause, see DESIGN.md)
	n := 150000 // more than 2^16 and 2^17: a counter of that width inside the nonce would wrap
	if ev.Thorough() {
		n = 3000000
	}
	seen := make(map[string]struct{}, n)
	for i := 0; i < n; i++ {
		_, _, text := facs[0].Generate("bob", i%2 == 0)
		a, _, _ := strings.Cut(text, ":")
		if _, dup := seen[a]; dup {
			ev.Violation("nonce-reused", "nonce "+a+" issued twice within "+fmt.Sprint(n)+" tokens", nil)
			break
		}
		seen[a] = struct{}{}
	}
	ev.Add("evaluations", n)
	ev.Set("nonces_checked_distinct", len(seen))
	ev.Sample(map[string]any{"issued": toks[0].text, "user": toks[0].user, "presentations": "bit flips, char substitutions/deletions/insertions, prefixes/suffixes, splices, chosen plaintexts, ages"})
	ev.Rule = fmt.Sprintf("%d issued tokens (3 user names x admin x 3 issue times x 2 factory instances); for %d of them every single-bit flip of nonce||ciphertext, every substitution of every character by each of %d characters, every deletion/insertion, every prefix/suffix; all %d x %d splices; 18 chosen plaintexts per factory; ~700 well-formed plaintexts per factory with issue times now +- 2^k s (k<63), +- multiples of 2^64 ns / 2^63 ns / 2^32 s +- lifetime, int64 extremes; 7 ages per token around the lifetime; distinct = distinct accepted presentations + distinct (age,status) + chosen plaintext outcomes",
		len(toks), len(sel), len(alpha), len(toks), len(toks)-1)
	ev.Assumptions = []string{"the oracle compares decoded content (the base64 text layer is not canonical and deliberately not part of the claim)", "nonce uniqueness is a statistical clause: 96-bit random nonces cannot be enumerated, the check catches constant / counter-reset / truncated nonces only",
		"user names are taken from the schema's grammar (no ':')"}
	vtime.SetOffset(0)
	ev.Finish()
}

// sealWith seals a chosen plaintext with the factory's own key through its internal sealing
// function, whatever the parameter type of that function is (a refactoring of the internals
// must not make the whole harness package unbuildable).
func sealWith(f *webSessionFactory, pt string) (nonce, enc []byte, ok bool) {
	switch fn := any(f.sealToken).(type) {
	case func(string) (int, string, []byte, []byte):
		_, _, nonce, enc = fn(pt)
		return nonce, enc, true
	case func([]byte) (int, string, []byte, []byte):
		_, _, nonce, enc = fn([]byte(pt))
		return nonce, enc, true
	}
	return nil, nil, false
}
