package sasl

// C13 — saslauthd wire codec: exact format, lossless round trip, fragment-independent.

import (
	"bytes"
	"encoding/binary"
	"fmt"
	"os"
	"strings"
	"testing"

	"github.com/whawty/auth/internal/verifev"
)

func fieldOf(n int, kind int) string {
	switch kind {
	case 0:
		return strings.Repeat("a", n)
	case 1:
		return strings.Repeat("\x00", n)
	case 2:
		return strings.Repeat("\xff", n)
	}
	if kind >= 4 && n > 0 {
		// white space where an encoder might be tempted to trim: all blanks, trailing blank / LF /
		// CRLF / tab, leading blank
		switch kind {
		case 4:
			return strings.Repeat(" ", n)
		case 5:
			return strings.Repeat("a", n-1) + " "
		case 6:
			return strings.Repeat("a", n-1) + "\n"
		case 7:
			if n >= 2 {
				return strings.Repeat("a", n-2) + "\r\n"
			}
			return "\r"
		case 8:
			return " " + strings.Repeat("a", n-1)
		case 9:
			return strings.Repeat("a", n-1) + "\t"
		}
	}
	b := make([]byte, n)
	for i := range b {
		b[i] = byte(i*7 + 3)
	}
	return string(b)
}

func TestC13(t *testing.T) {
	ev := verifev.New("C13", "codec")
	viol := func(key, format string, a ...any) {
		ev.Violation(key, fmt.Sprintf(format, a...), nil)
	}
	// ---- 1. encoder: every field-length vector over the boundary lengths
	lens := []int{0, 1, 2, 255, 256, 257}
	var vec bytes.Buffer // vectors for the PAM module (user, password, expected bytes)
	putU32 := func(b *bytes.Buffer, n int) {
		var x [4]byte
		binary.BigEndian.PutUint32(x[:], uint32(n))
		b.Write(x[:])
	}
	for _, l0 := range lens {
		for _, l1 := range lens {
			for _, l2 := range lens {
				for _, l3 := range lens {
					for kind := 0; kind < 4; kind++ {
						if kind > 0 && (l2 > 2 || l3 > 2) && !ev.Thorough() {
							continue
						}
						req := &Request{fieldOf(l0, kind), fieldOf(l1, (kind+1)%4), fieldOf(l2, kind), fieldOf(l3, (kind+2)%4)}
						ev.Add("evaluations", 1)
						data, err := req.Marshal()
						over := l0 > 256 || l1 > 256 || l2 > 256 || l3 > 256
						if over {
							if err == nil {
								viol("encoder-accepts-overlong-field", "Marshal of field lengths %d/%d/%d/%d succeeded", l0, l1, l2, l3)
							}
							// the decoder refuses the reference encoding of it as well
							var back Request
							if back.Unmarshal(refEncodeParts(req.Login, req.Password, req.Service, req.Realm)) == nil {
								viol("decoder-accepts-overlong-field", "Unmarshal accepted field lengths %d/%d/%d/%d", l0, l1, l2, l3)
							}
							continue
						}
						if err != nil {
							viol("encoder-refuses-valid-fields", "Marshal of field lengths %d/%d/%d/%d: %v", l0, l1, l2, l3, err)
							continue
						}
						want := refEncodeParts(req.Login, req.Password, req.Service, req.Realm)
						if !bytes.Equal(data, want) {
							viol("request-encoding-differs", "Marshal of lengths %d/%d/%d/%d (content kind %d) differs from the wire format: got %d bytes %x..., want %d bytes %x...", l0, l1, l2, l3, kind, len(data), head(data), len(want), head(want))
						}
						var buf bytes.Buffer
						if err := req.Encode(&buf); err != nil || !bytes.Equal(buf.Bytes(), want) {
							viol("request-encoding-differs", "Encode differs from the wire format for lengths %d/%d/%d/%d", l0, l1, l2, l3)
						}
						var back Request
						err = back.Unmarshal(want)
						if l0 == 0 || l1 == 0 {
							if err == nil {
								viol("decoder-accepts-empty-credentials", "Unmarshal accepted an empty login/password")
							}
						} else if err != nil || back != *req {
							viol("round-trip-lost-data", "Unmarshal(Marshal(x)) != x for lengths %d/%d/%d/%d kind %d: %v", l0, l1, l2, l3, kind, err)
						}
						ev.Distinct(fmt.Sprintf("enc|%d|%d|%d|%d|%d", l0, l1, l2, l3, kind))
					}
				}
			}
		}
	}
	// vectors for the PAM module: it sends (user, password, "", ""), each clipped to 256 bytes
	// (C strings: no NUL bytes)
	for _, ul := range []int{1, 2, 255, 256, 257, 300, 4096} {
		for _, pl := range []int{1, 2, 255, 256, 257, 4096} {
			u, p := strings.Repeat("u", ul), strings.Repeat("p", pl)
			putU32(&vec, ul)
			vec.WriteString(u)
			putU32(&vec, pl)
			vec.WriteString(p)
			cu, cp := u, p
			if len(cu) > 256 {
				cu = cu[:256]
			}
			if len(cp) > 256 {
				cp = cp[:256]
			}
			exp, err := (&Request{cu, cp, "", ""}).Marshal()
			if err != nil {
				viol("encoder-refuses-valid-fields", "clipped PAM fields: %v", err)
			}
			putU32(&vec, len(exp))
			vec.Write(exp)
		}
	}
	os.WriteFile(scratchFile("pamvectors.bin"), vec.Bytes(), 0600) //nolint:errcheck
	for _, big := range []int{65535, 65536, 70000} {
		for pos := 0; pos < 4; pos++ {
			f := []string{"a", "b", "c", "d"}
			f[pos] = strings.Repeat("x", big)
			if _, err := (&Request{f[0], f[1], f[2], f[3]}).Marshal(); err == nil {
				viol("encoder-accepts-overlong-field", "Marshal accepted a %d-byte field at position %d", big, pos)
			}
			ev.Add("evaluations", 1)
		}
	}
	// ---- 2. responses
	for _, ok := range []bool{true, false} {
		for ml := 0; ml <= 253; ml++ {
			for kind := 0; kind < 10; kind++ {
				if ml == 0 && kind > 0 {
					continue
				}
				msg := fieldOf(ml, kind)
				resp := &Response{ok, msg}
				data, err := resp.Marshal()
				ev.Add("evaluations", 1)
				text := "NO"
				if ok {
					text = "OK"
				}
				if msg != "" {
					text += " " + msg
				}
				if err != nil || !bytes.Equal(data, refEncodeParts(text)) {
					viol("response-encoding-differs", "Marshal(%v, %d-byte message) = %x (err %v), want %x", ok, ml, head(data), err, head(refEncodeParts(text)))
					continue
				}
				var wbuf bytes.Buffer
				if err := resp.Encode(&wbuf); err != nil || !bytes.Equal(wbuf.Bytes(), data) {
					viol("response-encode-differs-from-marshal", "Encode(%v, %d-byte message kind %d) wrote %x (err %v), Marshal gives %x", ok, ml, kind, head(wbuf.Bytes()), err, head(data))
				}
				var back Response
				if err := back.Unmarshal(data); err != nil || back.Result != ok || back.Message != msg {
					viol("response-round-trip", "Unmarshal(Marshal(%v,%d bytes kind %d)) = %v,%d bytes, err %v", ok, ml, kind, back.Result, len(back.Message), err)
				}
				ev.Distinct(fmt.Sprintf("resp|%v|%d|%d", ok, ml, kind))
			}
		}
	}
	// ---- 3. decoder: every byte string up to a length bound over a small alphabet
	alpha := []byte{0, 1, 2, 'a', 'O', 'K', 'N', ' '}
	maxLen := 5
	if ev.Thorough() {
		maxLen = 6
	}
	var rec func(cur []byte)
	nstr := 0
	rec = func(cur []byte) {
		checkDecode(ev, cur)
		nstr++
		if len(cur) == maxLen {
			return
		}
		for _, c := range alpha {
			rec(append(cur, c))
		}
	}
	rec(nil)
	// ---- 4. valid encodings, truncated at every byte and with 0..2 trailing bytes
	var streams [][]byte
	for _, fl := range [][4]int{{1, 1, 0, 0}, {2, 1, 1, 0}, {1, 2, 0, 2}, {3, 3, 3, 3}, {1, 256, 0, 0}, {256, 1, 2, 256}} {
		full := refEncodeParts(fieldOf(fl[0], 0), fieldOf(fl[1], 3), fieldOf(fl[2], 0), fieldOf(fl[3], 1))
		for cut := 0; cut <= len(full); cut++ {
			if len(full) > 40 && cut > 12 && cut < len(full)-4 && cut%61 != 0 {
				continue
			}
			streams = append(streams, append([]byte{}, full[:cut]...))
		}
		streams = append(streams, append(append([]byte{}, full...), 0), append(append([]byte{}, full...), 0, 1), append(append([]byte{}, full...), 'x', 'y', 'z'))
	}
	for _, s := range streams {
		checkDecode(ev, s)
	}
	// ---- 5. fragment independence: every composition of short streams into reads, zero-length
	//         reads at any position, EOF with the data or after it
	fragLimit := 10
	if ev.Thorough() {
		fragLimit = 14
	}
	nfrag := 0
	for _, s := range streams {
		if len(s) > fragLimit {
			// long streams: the byte-wise, the pairwise and a few irregular fragmentations
			for _, fr := range [][]int{ones(len(s)), chunks(len(s), 2), chunks(len(s), 3), {1, len(s) - 1}, {len(s) - 1, 1}, chunks(len(s), 255), chunks(len(s), 257)} {
				nfrag += checkFragments(ev, s, fr)
			}
			continue
		}
		compositions(len(s), func(fr []int) {
			nfrag += checkFragments(ev, s, fr)
			// zero-length reads inserted at one or two positions
			for i := 0; i <= len(fr); i++ {
				z := append(append(append([]int{}, fr[:i]...), 0), fr[i:]...)
				nfrag += checkFragments(ev, s, z)
				if len(s) <= 6 {
					for j := i; j <= len(z); j++ {
						zz := append(append(append([]int{}, z[:j]...), 0), z[j:]...)
						nfrag += checkFragments(ev, s, zz)
					}
				}
			}
		})
	}
	ev.Add("evaluations", nfrag)
	ev.Set("strings_decoded", nstr)
	ev.Set("fragmentations", nfrag)
	ev.Sample(map[string]any{"stream": fmt.Sprintf("%x", streams[7]), "fragmentation": "every composition into reads + zero-length reads + EOF with/after data"})
	ev.Rule = fmt.Sprintf("encoder: all 6^4 field-length vectors over {0,1,2,255,256,257} x 4 content kinds + 65535/65536/70000-byte fields; responses ok x every message length 0..253 x 10 content kinds (incl. all-blank, trailing blank/LF/CRLF/tab, leading blank), Marshal and Encode; decoder: all %d byte strings of length <= %d over {00,01,02,a,O,K,N,space} as request and response vs. a reference decoder incl. re-encoding of the consumed prefix; %d streams (valid encodings cut at every byte, trailing bytes) under every composition into reads (<= %d bytes), zero-length reads, EOF with/after data; distinct = distinct decode outcomes + encoder cells", nstr, maxLen, len(streams), fragLimit)
	ev.Finish()
}

func head(b []byte) []byte {
	if len(b) > 12 {
		return b[:12]
	}
	return b
}

func ones(n int) []int { return chunks(n, 1) }

func chunks(n, k int) []int {
	var out []int
	for n > 0 {
		c := k
		if c > n {
			c = n
		}
		out = append(out, c)
		n -= c
	}
	return out
}

// checkDecode compares Request/Response decoding of one complete stream with the reference.
func checkDecode(ev *verifev.Run, s []byte) {
	ev.Add("evaluations", 1)
	var got Request
	err := got.Unmarshal(append([]byte{}, s...))
	want, consumed, werr := refDecodeRequest(s)
	if (err == nil) != (werr == nil) {
		ev.Violation("request-decode-verdict", fmt.Sprintf("stream %x: decoder error=%v, reference error=%v", s, err, werr), map[string]any{"stream": s})
	} else if err == nil {
		if got != *want {
			ev.Violation("request-decode-fields", fmt.Sprintf("stream %x: decoded %q, reference %q", s, got, *want), map[string]any{"stream": s})
		}
		re, rerr := got.Marshal()
		if rerr != nil || !bytes.Equal(re, s[:consumed]) {
			ev.Violation("reencode-differs-from-consumed-bytes", fmt.Sprintf("stream %x: decoded request re-encodes to %x, consumed prefix is %x", s, re, s[:consumed]), map[string]any{"stream": s})
		}
	}
	ev.Distinct(fmt.Sprintf("dq|%v|%x", err == nil, s))
	var gr Response
	rerr := gr.Unmarshal(append([]byte{}, s...))
	wr, wrerr := refDecodeResponse(s)
	if (rerr == nil) != (wrerr == nil) {
		ev.Violation("response-decode-verdict", fmt.Sprintf("stream %x: response decoder error=%v, reference error=%v", s, rerr, wrerr), map[string]any{"stream": s})
	} else if rerr == nil && (gr.Result != wr.Result || gr.Message != wr.Message) {
		ev.Violation("response-decode-fields", fmt.Sprintf("stream %x: decoded %v/%q, reference %v/%q", s, gr.Result, gr.Message, wr.Result, wr.Message), map[string]any{"stream": s})
	}
}

// checkFragments: the result for a fragmented delivery equals the one-piece result.
func checkFragments(ev *verifev.Run, s []byte, frags []int) int {
	n := 0
	want, _, werr := refDecodeRequest(s)
	for _, eofWith := range []bool{false, true} {
		var got Request
		err := got.Decode(&fragReader{data: append([]byte{}, s...), frags: append([]int{}, frags...), eofWithData: eofWith})
		n++
		if (err == nil) != (werr == nil) || (err == nil && got != *want) {
			ev.Violation("decode-depends-on-fragmentation", fmt.Sprintf("stream %x delivered as reads %v (EOF with data: %v): decoder error=%v result %q; in one piece: error=%v", s, frags, eofWith, err, got, werr),
				map[string]any{"stream": s, "fragments": frags, "eof_with_data": eofWith})
			return n
		}
	}
	return n
}
