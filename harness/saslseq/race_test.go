package sasl

// Free-running -race twin for the saslauthd server: real unix socket, concurrent clients.

import (
	"fmt"
	"os"
	"sync"
	"testing"
	"time"

	"github.com/whawty/auth/internal/verifev"
)

func TestRace(t *testing.T) {
	prop := os.Getenv("VERIF_RACE_PROP")
	if prop == "" {
		prop = "C05"
	}
	ev := verifev.New(prop, "race")
	path := scratchFile(fmt.Sprintf("race-%d.sock", os.Getpid()))
	os.Remove(path)
	s, err := NewServer(path, func(l, p, sv, r string) (bool, string, error) { return l == p, "hello " + l, nil })
	if err != nil {
		fmt.Println(err)
		os.Exit(2)
	}
	defer os.Remove(path)
	go s.Run() //nolint:errcheck
	rounds := 50
	if ev.Thorough() {
		rounds = 500
	}
	for k := 0; k < rounds; k++ {
		var wg sync.WaitGroup
		for c := 0; c < 6; c++ {
			wg.Add(1)
			go func(c int) {
				defer wg.Done()
				name := fmt.Sprintf("user%d", c)
				pw := name
				if c%2 == 1 {
					pw = "wrong"
				}
				ok, msg, err := NewClient(path).Auth(name, pw, "svc", "")
				if err != nil || ok != (c%2 == 0) || msg != "hello "+name {
					ev.Violation("concurrent-client-got-wrong-answer", fmt.Sprintf("client %d: ok=%v msg=%q err=%v", c, ok, msg, err), nil)
				}
			}(c)
		}
		done := make(chan struct{})
		go func() { wg.Wait(); close(done) }()
		select {
		case <-done:
		case <-time.After(5 * time.Minute):
			// not a timing oracle: six local requests that are still unanswered after minutes are hung
			ev.Violation("concurrent-client-never-answered", fmt.Sprintf("round %d: not all of 6 concurrent clients were answered within 5 minutes", k), nil)
			ev.NotExhaustive("stopped after a hung round")
			ev.Finish()
			os.Exit(0)
		}
		ev.Add("evaluations", 6)
	}
	ev.Distinct("rounds")
	ev.Distinct("clients=6")
	ev.Rule = fmt.Sprintf("%d rounds x 6 concurrent real clients on a real unix socket under the Go race detector (sampling pass)", rounds)
	ev.Sample(map[string]any{"socket": "unix", "clients": 6})
	ev.Finish()
}
