package sasl

// C05 (sequential part) — the saslauthd server fails closed on every byte stream.
// Every stream of the enumeration x every delivery (fragmentation, zero-length reads, EOF
// with/after the data, client stalling) x every callback outcome is handled by the real
// per-connection handler over a scripted connection.

import (
	"bytes"
	"encoding/binary"
	"errors"
	"fmt"
	"os"
	"strings"
	"testing"

	"github.com/whawty/auth/internal/verifev"
)

type cbOutcome struct {
	ok     bool
	err    bool
	msgLen int
}

func cbMessage(n int) string {
	b := make([]byte, n)
	for i := range b {
		b[i] = "abc \x00\n:"[i%7]
	}
	return string(b)
}

func TestC05(t *testing.T) {
	ev := verifev.New("C05", "streams")
	// ---- streams: every request with field lengths in {0,1,2} over {a, NUL}, truncated at every byte,
	//      with trailing bytes; over-long length prefixes in every position; 17 special field contents ('@', blanks, line ends, separators, non-UTF-8) in every position; the empty stream
	var streams [][]byte
	fld := func(n, k int) string { return strings.Repeat(string([]byte{"a\x00"[k%2]}), n) }
	for l0 := 0; l0 <= 2; l0++ {
		for l1 := 0; l1 <= 2; l1++ {
			for l2 := 0; l2 <= 2; l2++ {
				for l3 := 0; l3 <= 2; l3++ {
					full := refEncodeParts(fld(l0, 0), fld(l1, 1), fld(l2, 0), fld(l3, 1))
					for cut := 0; cut <= len(full); cut++ {
						streams = append(streams, append([]byte{}, full[:cut]...))
					}
					for _, tr := range [][]byte{{0}, {0, 1, 'x'}} {
						streams = append(streams, append(append([]byte{}, full...), tr...))
					}
				}
			}
		}
	}
	for pos := 0; pos < 4; pos++ {
		for _, big := range []int{256, 257, 65535} {
			var s []byte
			for i := 0; i < 4; i++ {
				n := 1
				if i == pos {
					n = big
				}
				var l [2]byte
				binary.BigEndian.PutUint16(l[:], uint16(n))
				s = append(s, l[:]...)
				s = append(s, bytes.Repeat([]byte{'z'}, n)...)
			}
			streams = append(streams, s)
		}
	}
	// field contents that mean something in other layers (separators of realm, LDAP, URL, shell,
	// white space): the callback must get them byte for byte, whatever the other fields hold
	special := []string{"a@b", "a@", "@a", "a@b@c", "a b", " a", "a ", "a\n", "a\r\n", "a:b", "a,b", "a=b", "a/b", "a%40b", "A", "\xff\xfe", "a\x00"}
	for _, sp := range special {
		for pos := 0; pos < 4; pos++ {
			for _, rest := range []string{"", "r"} {
				f := []string{"u", "p", rest, rest}
				f[pos] = sp
				streams = append(streams, refEncodeParts(f[0], f[1], f[2], f[3]))
			}
		}
	}
	// dedupe
	seen := map[string]bool{}
	var us [][]byte
	for _, s := range streams {
		if !seen[string(s)] {
			seen[string(s)] = true
			us = append(us, s)
		}
	}
	streams = us
	msgLens := []int{0, 1, 3, 252, 253, 254, 255, 256, 4000, 65533, 65534, 70000}
	var outcomes []cbOutcome
	for _, ok := range []bool{true, false} {
		for _, e := range []bool{false, true} {
			for _, ml := range msgLens {
				outcomes = append(outcomes, cbOutcome{ok, e, ml})
			}
		}
	}
	var replies bytes.Buffer // exported to the PAM module check: verdict + reply bytes
	exported := map[string]bool{}
	// one callback state per server; a server may be shared by a sequence of connections
	type srvState struct {
		srv     *Server
		calls   int
		gotArgs [4]string
		oc      cbOutcome
	}
	newSrv := func() *srvState {
		st := &srvState{}
		st.srv = &Server{cb: func(l, p, sv, r string) (bool, string, error) {
			st.calls++
			st.gotArgs = [4]string{l, p, sv, r}
			if st.oc.err {
				return st.oc.ok, cbMessage(st.oc.msgLen), errors.New(cbMessage(st.oc.msgLen))
			}
			return st.oc.ok, cbMessage(st.oc.msgLen), nil
		}}
		return st
	}
	var shared *srvState // non-nil: handle the next connection on this (used) server
	history := ""
	handle := func(s []byte, frags []int, eofWith, stall bool, oc cbOutcome) {
		st := shared
		if st == nil {
			st = newSrv()
		}
		st.calls, st.gotArgs, st.oc = 0, [4]string{}, oc
		srv := st.srv
		conn := &scriptConn{r: &fragReader{data: append([]byte{}, s...), frags: append([]int{}, frags...), eofWithData: eofWith}, stall: stall}
		func() {
			defer func() {
				if r := recover(); r != nil {
					ev.Violation("handler-panic", fmt.Sprintf("stream %x reads %v: handler panicked: %v", s, frags, r), map[string]any{"stream": s, "fragments": frags})
				}
			}()
			srv.handleConnection(conn)
		}()
		calls, gotArgs := st.calls, st.gotArgs
		ev.Add("evaluations", 1)
		want, _, werr := refDecodeRequest(s)
		desc := history + fmt.Sprintf("stream %x delivered as reads %v (EOF with data %v, client stalls %v), callback outcome ok=%v err=%v message %d bytes", head(s), frags, eofWith, stall, oc.ok, oc.err, oc.msgLen)
		rp := map[string]any{"stream": s, "fragments": frags, "eof_with_data": eofWith, "stall": stall, "callback": fmt.Sprint(oc)}
		if calls > 1 {
			ev.Violation("callback-called-more-than-once", desc, rp)
		}
		if werr != nil && calls != 0 {
			ev.Violation("callback-called-for-undecodable-request", desc+fmt.Sprintf(": called with %q", gotArgs), rp)
		}
		if werr == nil && calls == 1 && gotArgs != [4]string{want.Login, want.Password, want.Service, want.Realm} {
			ev.Violation("callback-called-with-wrong-fields", desc+fmt.Sprintf(": called with %q, request is %q", gotArgs, *want), rp)
		}
		if werr == nil && calls == 0 {
			ev.Violation("callback-not-called-for-valid-request", desc, rp)
		}
		if conn.closed != 1 {
			ev.Violation("connection-not-closed-exactly-once", desc+fmt.Sprintf(": closed %d times", conn.closed), rp)
		}
		// exactly one well-formed reply, written before the close
		ev.Distinct(fmt.Sprintf("%v|%d|%v|%v|%d", werr == nil, calls, oc.ok, oc.err, len(conn.written)))
		if len(conn.written) < 2 {
			ev.Violation("no-reply", desc+fmt.Sprintf(": %d bytes written", len(conn.written)), rp)
			return
		}
		l := int(binary.BigEndian.Uint16(conn.written[:2]))
		if l != len(conn.written)-2 {
			ev.Violation("reply-not-exactly-one-length-prefixed-message", desc+fmt.Sprintf(": announced %d, %d bytes follow", l, len(conn.written)-2), rp)
			return
		}
		body := conn.written[2:]
		positive := len(body) >= 2 && body[0] == 'O' && body[1] == 'K'
		if len(body) < 2 || (!positive && !(body[0] == 'N' && body[1] == 'O')) {
			ev.Violation("reply-malformed", desc+fmt.Sprintf(": body %q", head(body)), rp)
		}
		approved := werr == nil && calls == 1 && oc.ok && !oc.err
		if positive != approved {
			k := "positive-reply-without-approval"
			if approved {
				k = "approval-answered-negatively"
			}
			ev.Violation(k, desc, rp)
		}
		// the order of events: no write after close; once the reply is out the server hangs up and
		// does not wait for a client that keeps its side open
		for _, e := range conn.events {
			if e == "WAIT-FOR-CLIENT-AFTER-REPLY" {
				ev.Violation("waits-for-client-after-reply", desc+fmt.Sprintf(": the server reads from a silent client after having replied instead of closing: %v", conn.events), rp)
				break
			}
		}
		for i, e := range conn.events {
			if e == "CLOSE" && i != len(conn.events)-1 {
				ev.Violation("activity-after-close", desc+fmt.Sprintf(": %v", conn.events), rp)
			}
		}
		// every reply is decodable by the bundled client and yields the verdict
		var back Response
		if err := back.Unmarshal(append([]byte{}, conn.written...)); err != nil {
			ev.Violation("reply-not-decodable-by-go-client", desc+fmt.Sprintf(": %v (reply of %d bytes)", err, len(conn.written)), rp)
		} else if back.Result != approved {
			ev.Violation("go-client-reads-wrong-verdict", desc, rp)
		}
		k := fmt.Sprintf("%v|%x", approved, conn.written)
		if !exported[k] && len(conn.written) < 70000 {
			exported[k] = true
			if approved {
				replies.WriteByte(1)
			} else {
				replies.WriteByte(0)
			}
			var x [4]byte
			binary.BigEndian.PutUint32(x[:], uint32(len(conn.written)))
			replies.Write(x[:])
			replies.Write(conn.written)
		}
	}
	fragLimit := 9
	if ev.Thorough() {
		fragLimit = 13
	}
	std := cbOutcome{true, false, 3}
	for _, s := range streams {
		// every callback outcome for the one-piece delivery
		for _, oc := range outcomes {
			handle(s, []int{len(s)}, false, false, oc)
		}
		// every delivery for a positive and a negative callback
		for _, oc := range []cbOutcome{std, {false, false, 0}} {
			if len(s) <= fragLimit {
				compositions(len(s), func(fr []int) {
					handle(s, fr, false, false, oc)
					handle(s, fr, true, false, oc)
					handle(s, fr, false, true, oc)
					if len(s) <= 6 {
						for i := 0; i <= len(fr); i++ {
							z := append(append(append([]int{}, fr[:i]...), 0), fr[i:]...)
							handle(s, z, false, false, oc)
						}
					}
				})
			} else {
				for _, fr := range [][]int{ones(len(s)), chunks(len(s), 2), chunks(len(s), 255), {1, len(s) - 1}} {
					handle(s, fr, false, false, oc)
					handle(s, fr, true, false, oc)
					handle(s, fr, false, true, oc)
				}
			}
		}
	}
	// ---- histories: the result for a connection does not depend on what the SAME server
	//      instance handled before (approved, refused, failing or undecodable requests)
	valid := refEncodeParts("alice", "secret", "imap", "")
	preds := []struct {
		name string
		s    []byte
		oc   cbOutcome
	}{
		{"after an approved request", valid, cbOutcome{true, false, 3}},
		{"after a refused request", valid, cbOutcome{false, false, 3}},
		{"after a request failing with an error", valid, cbOutcome{true, true, 3}},
		{"after an undecodable stream", valid[:7], cbOutcome{true, false, 3}},
		{"after an approved request with a long message", valid, cbOutcome{true, false, 252}},
	}
	for _, pr := range preds {
		for _, s := range streams {
			for _, oc := range []cbOutcome{{true, false, 3}, {false, false, 0}, {true, true, 1}, {false, false, 253}} {
				shared = newSrv()
				history = ""
				handle(pr.s, []int{len(pr.s)}, false, false, pr.oc)
				history = "[same server, " + pr.name + "] "
				handle(s, []int{len(s)}, false, false, oc)
				// and a third connection
				history = "[same server, third connection " + pr.name + "] "
				handle(valid, []int{3, len(valid) - 3}, true, false, cbOutcome{false, false, 2})
			}
		}
	}
	shared, history = nil, ""
	os.WriteFile(scratchFile("goreplies.bin"), replies.Bytes(), 0600) //nolint:errcheck
	ev.Set("replies_exported_to_pam_check", len(exported))
	ev.Sample(map[string]any{"streams": len(streams), "callback_outcomes": len(outcomes), "example_stream": fmt.Sprintf("%x", streams[40])})
	ev.Set("server_histories", len(preds)*len(streams)*4)
	ev.Rule = fmt.Sprintf("%d client byte streams (all requests with field lengths {0,1,2} over {a,NUL} cut at every byte and with trailing bytes; length prefixes 256/257/65535 in each position) x %d callback outcomes (ok x error x message lengths 0..70000 incl. NUL/newline) for one-piece delivery; for a positive and a negative callback every composition into reads (<= %d bytes), EOF with/after data, stalling client, zero-length reads; every stream x 4 callback outcomes as the SECOND connection of a server instance after each of 5 predecessor connections (approved / refused / error / undecodable / long message), plus a third connection; distinct = distinct (decodable, callback calls, callback outcome, reply length)",
		len(streams), len(outcomes), fragLimit)
	ev.Finish()
}
