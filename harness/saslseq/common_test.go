package sasl

// Harness code mounted into package sasl by the build overlay (never part of /repo).

import (
	"encoding/binary"
	"errors"
	"io"
	"net"
	"os"
	"path/filepath"
	"time"
)

// ---- reference codec, written from the format description ---------------------------------

func refEncodeParts(parts ...string) []byte {
	var out []byte
	for _, p := range parts {
		var l [2]byte
		binary.BigEndian.PutUint16(l[:], uint16(len(p)))
		out = append(out, l[:]...)
		out = append(out, p...)
	}
	return out
}

// refDecodeParts decodes n length-prefixed parts from a complete stream; consumed = bytes used.
func refDecodeParts(data []byte, n int) (parts []string, consumed int, err error) {
	pos := 0
	for i := 0; i < n; i++ {
		if pos == len(data) {
			return nil, pos, errors.New("too few parts")
		}
		if len(data)-pos < 2 {
			return nil, pos, errors.New("truncated length")
		}
		l := int(binary.BigEndian.Uint16(data[pos : pos+2]))
		if l > MaxRequestLength {
			return nil, pos, errors.New("part too long")
		}
		if len(data)-pos-2 < l {
			return nil, pos, errors.New("truncated part")
		}
		parts = append(parts, string(data[pos+2:pos+2+l]))
		pos += 2 + l
	}
	return parts, pos, nil
}

func refDecodeRequest(data []byte) (*Request, int, error) {
	p, c, err := refDecodeParts(data, 4)
	if err != nil {
		return nil, c, err
	}
	if len(p[0]) == 0 || len(p[1]) == 0 {
		return nil, c, errors.New("empty login or password")
	}
	return &Request{p[0], p[1], p[2], p[3]}, c, nil
}

func refDecodeResponse(data []byte) (*Response, error) {
	p, _, err := refDecodeParts(data, 1)
	if err != nil {
		return nil, err
	}
	s := p[0]
	if len(s) < 2 {
		return nil, errors.New("too short")
	}
	r := &Response{}
	switch s[:2] {
	case "OK":
		r.Result = true
	case "NO":
	default:
		return nil, errors.New("invalid")
	}
	if len(s) > 3 {
		r.Message = s[3:]
	}
	return r, nil
}

// ---- scripted reader -------------------------------------------------------------------------

// fragReader delivers data in the given fragment sizes (0 = a zero-length read); the last
// fragment is delivered together with io.EOF when eofWithData is set.
type fragReader struct {
	data        []byte
	frags       []int
	i           int
	eofWithData bool
}

func (r *fragReader) Read(p []byte) (int, error) {
	if r.i >= len(r.frags) {
		return 0, io.EOF
	}
	n := r.frags[r.i]
	if n > len(p) {
		// the consumer's buffer is smaller than the fragment: deliver what fits
		r.frags[r.i] -= len(p)
		n = len(p)
		copy(p, r.data[:n])
		r.data = r.data[n:]
		return n, nil
	}
	r.i++
	copy(p, r.data[:n])
	r.data = r.data[n:]
	if r.i == len(r.frags) && r.eofWithData {
		return n, io.EOF
	}
	return n, nil
}

// compositions enumerates all ways to cut n bytes into consecutive non-empty fragments.
func compositions(n int, f func(frags []int)) {
	if n == 0 {
		f(nil)
		return
	}
	for mask := 0; mask < 1<<uint(n-1); mask++ {
		var fr []int
		cur := 1
		for b := 0; b < n-1; b++ {
			if mask>>uint(b)&1 == 1 {
				fr = append(fr, cur)
				cur = 1
			} else {
				cur++
			}
		}
		fr = append(fr, cur)
		f(fr)
	}
}

// ---- scripted connection -------------------------------------------------------------------

type scriptConn struct {
	r       io.Reader
	stall   bool // after the data: the client never sends EOF (modelled as a late error)
	events  []string
	written []byte
	closed  int
	stalled bool
}

func (c *scriptConn) Read(p []byte) (int, error) {
	n, err := c.r.Read(p)
	if err == io.EOF && c.stall {
		if n > 0 {
			return n, nil
		}
		if !c.stalled {
			c.stalled = true
			c.events = append(c.events, "STALL")
		}
		if len(c.written) > 0 {
			// the reply is out, the client sits waiting for the server to hang up
			c.events = append(c.events, "WAIT-FOR-CLIENT-AFTER-REPLY")
		}
		return 0, errors.New("i/o timeout (the client never closed its side)")
	}
	return n, err
}

func (c *scriptConn) Write(p []byte) (int, error) {
	c.events = append(c.events, "WRITE")
	c.written = append(c.written, p...)
	return len(p), nil
}

func (c *scriptConn) Close() error                       { c.closed++; c.events = append(c.events, "CLOSE"); return nil }
func (c *scriptConn) LocalAddr() net.Addr                { return &net.UnixAddr{Name: "l", Net: "unix"} }
func (c *scriptConn) RemoteAddr() net.Addr               { return &net.UnixAddr{Name: "r", Net: "unix"} }
func (c *scriptConn) SetDeadline(t time.Time) error      { return nil }
func (c *scriptConn) SetReadDeadline(t time.Time) error  { return nil }
func (c *scriptConn) SetWriteDeadline(t time.Time) error { return nil }

func scratchFile(name string) string {
	d := os.Getenv("VERIF_SCRATCH")
	if d == "" {
		d = os.TempDir()
	}
	return filepath.Join(d, name)
}
