package sasl

// C05 (concurrency part) — any number of concurrent connections: every schedule of the
// accept loop and the per-connection handlers (rewritten `go` statements, reads, writes,
// callback invocations as scheduling points) is explored; no connection ever receives
// another connection's reply.

import (
	"encoding/json"
	"errors"
	"fmt"
	"net"
	"os"
	"strconv"
	"strings"
	"syscall"
	"testing"
	"time"

	"github.com/whawty/auth/internal/verifev"
	mc "github.com/whawty/auth/internal/verifmc"
	"github.com/whawty/auth/internal/verifmc/vtime"
)

type mcConn struct {
	id       int
	in       [][]byte
	out      []byte
	closed   int
	afterCl  int
	slow     bool // the client pauses for an hour (virtual time) before every fragment after the first
	reads    int
	rdl, wdl time.Time // deadlines set by the server (virtual clock)
	timedOut int
}

type timeoutErr struct{}

func (timeoutErr) Error() string   { return "i/o timeout" }
func (timeoutErr) Timeout() bool   { return true }
func (timeoutErr) Temporary() bool { return true }

func (c *mcConn) Read(p []byte) (int, error) {
	mc.Yield(fmt.Sprintf("conn%d.read", c.id))
	c.reads++
	if c.slow && c.reads > 1 && len(c.in) > 0 {
		vtime.Sleep(time.Hour)
	}
	if !c.rdl.IsZero() && vtime.Now().After(c.rdl) {
		c.timedOut++
		return 0, timeoutErr{}
	}
	if len(c.in) == 0 {
		return 0, errors.New("EOF")
	}
	n := copy(p, c.in[0])
	if n < len(c.in[0]) {
		c.in[0] = c.in[0][n:]
	} else {
		c.in = c.in[1:]
	}
	return n, nil
}

func (c *mcConn) Write(p []byte) (int, error) {
	mc.Yield(fmt.Sprintf("conn%d.write", c.id))
	if c.closed > 0 {
		c.afterCl++
	}
	if !c.wdl.IsZero() && vtime.Now().After(c.wdl) {
		return 0, timeoutErr{} // the deadline the server set itself has passed: nothing is sent
	}
	c.out = append(c.out, p...)
	return len(p), nil
}

func (c *mcConn) Close() error {
	mc.Yield(fmt.Sprintf("conn%d.close", c.id))
	c.closed++
	return nil
}
func (c *mcConn) LocalAddr() net.Addr                { return &net.UnixAddr{Name: "l", Net: "unix"} }
func (c *mcConn) RemoteAddr() net.Addr               { return &net.UnixAddr{Name: "r", Net: "unix"} }
func (c *mcConn) SetDeadline(t time.Time) error      { c.rdl, c.wdl = t, t; return nil }
func (c *mcConn) SetReadDeadline(t time.Time) error  { c.rdl = t; return nil }
func (c *mcConn) SetWriteDeadline(t time.Time) error { c.wdl = t; return nil }

type mcListener struct {
	queue []*mcConn
	errs  map[int]error // a transient accept failure reported once before the connection with that id
}

func (l *mcListener) Accept() (net.Conn, error) {
	var c *mcConn
	var err error
	mc.Ext("listener.accept", "accept", func() bool { return len(l.queue) > 0 }, func() {
		if e, ok := l.errs[l.queue[0].id]; ok {
			delete(l.errs, l.queue[0].id)
			err = e
			return
		}
		c = l.queue[0]
		l.queue = l.queue[1:]
	})
	if err != nil {
		return nil, err
	}
	return c, nil
}
func (l *mcListener) Close() error   { return nil }
func (l *mcListener) Addr() net.Addr { return &net.UnixAddr{Name: "l", Net: "unix"} }

type mcWorld struct {
	conns []*mcConn
	calls map[string]int
}

var mw *mcWorld

func TestMC(t *testing.T) {
	prop := os.Getenv("VERIF_MC_PROP")
	if prop == "" {
		prop = "C05"
	}
	partName := os.Getenv("VERIF_MC_PART")
	if partName == "" {
		partName = "mc"
	}
	ev := verifev.New(prop, partName+"-"+os.Getenv("VERIF_MC_SCENARIO"))
	type scen struct {
		name  string
		n     int
		frags int
	}
	scs := []scen{{"2-connections", 2, 2}, {"3-connections", 3, 1}, {"3-connections-fragmented", 3, 2}, {"3-connections-one-truncated", 3, 3}, {"2-connections-bytewise", 2, 4},
		// time: the callback of every request takes an hour / the clients pause an hour between fragments
		{"2-connections-slow-callback", 2, 5}, {"2-connections-slow-client", 2, 6},
		// the accept loop sees transient failures (descriptor table full) between connections
		{"3-connections-accept-errors", 3, 7}}
	if ev.Thorough() {
		scs = append(scs, scen{"4-connections", 4, 1})
	}
	sel := os.Getenv("VERIF_MC_SCENARIO")
	if sel == "list" {
		for i, s := range scs {
			fmt.Printf("SCENARIO %d %s\n", i, s.name)
		}
		return
	}
	var rpl struct {
		Replay struct {
			Scenario string `json:"scenario"`
			Order    int    `json:"order"`
			Choices  []int  `json:"choices"`
		} `json:"replay"`
	}
	rp := os.Getenv("VERIF_REPLAY")
	idx, err := strconv.Atoi(sel)
	if rp != "" {
		b, err := os.ReadFile(rp)
		if err == nil {
			err = json.Unmarshal(b, &rpl)
		}
		if err != nil {
			fmt.Println("cannot read replay file:", err)
			os.Exit(2)
		}
		idx = -1
		for i, s := range scs {
			if s.name == rpl.Replay.Scenario {
				idx = i
			}
		}
		if idx < 0 {
			fmt.Println("scenario of replay file not found:", rpl.Replay.Scenario)
			os.Exit(2)
		}
	} else if err != nil || idx < 0 || idx >= len(scs) {
		fmt.Println("bad scenario")
		os.Exit(2)
	}
	sc := scs[idx]
	deadline := time.Time{}
	if d, err := strconv.Atoi(os.Getenv("VERIF_MC_DEADLINE_S")); err == nil && d > 0 {
		deadline = time.Now().Add(time.Duration(d) * time.Second)
	}
	h := mc.Harness{
		Name: sc.name,
		Root: func() {
			mw = &mcWorld{calls: map[string]int{}}
			ln := &mcListener{}
			for i := 0; i < sc.n; i++ {
				req := &Request{fmt.Sprintf("%duser", i), fmt.Sprintf("%dpw", i), fmt.Sprintf("%dsvc", i), ""}
				data, _ := req.Marshal()
				c := &mcConn{id: i}
				// every field starts with the digit in which the requests differ and the first fragment
				// ends right after the digit of the password (00 05 <i>user 00 03 <i> | pw ...): the
				// handler is parked with an unconsumed residue that differs between connections, so
				// state shared between connection handlers cannot hide
				cut := 10
				if sc.frags == 3 && i == 1 {
					c.in = [][]byte{data[:cut]} // connection 1 abandons its request half-way
				} else if sc.frags == 4 {
					for _, b := range data {
						c.in = append(c.in, []byte{b})
					}
				} else if sc.frags == 5 || sc.frags == 7 {
					c.in = [][]byte{data}
				} else if sc.frags == 6 {
					c.in = [][]byte{data[:cut], data[cut:]}
					c.slow = true
				} else if sc.frags >= 2 {
					c.in = [][]byte{data[:cut], data[cut:]}
				} else {
					c.in = [][]byte{data}
				}
				mw.conns = append(mw.conns, c)
				ln.queue = append(ln.queue, c)
			}
			if sc.frags == 7 {
				ln.errs = map[int]error{
					1: &net.OpError{Op: "accept", Net: "unix", Err: os.NewSyscallError("accept4", syscall.EMFILE)},
					2: &net.OpError{Op: "accept", Net: "unix", Err: os.NewSyscallError("accept4", syscall.ENFILE)},
				}
			}
			s := &Server{ln: ln, cb: func(login, pw, svc, realm string) (bool, string, error) {
				mc.Yield("callback." + login)
				if sc.frags == 5 {
					vtime.Sleep(time.Hour)
				}
				mw.calls[login+"/"+pw+"/"+svc+"/"+realm]++
				i, _ := strconv.Atoi(strings.TrimSuffix(login, "user"))
				if i%3 == 2 {
					return true, "", errors.New("backend down for " + login)
				}
				return i%2 == 0, "hello " + login, nil
			}}
			mc.Go("run", func() { s.Run() }) //nolint:errcheck
		},
		Key: func() string {
			if mw == nil {
				return ""
			}
			var sb strings.Builder
			for _, c := range mw.conns {
				fmt.Fprintf(&sb, "c%d in=%d out=%x closed=%d rd=%d to=%d dl=%v;", c.id, len(c.in), c.out, c.closed, c.reads, c.timedOut, !c.wdl.IsZero())
			}
			return sb.String() + fmt.Sprint(len(mw.calls))
		},
		Final: func(s *mc.Sched, out mc.Outcome) []mc.Viol {
			var v []mc.Viol
			if out == mc.Panicked {
				pv, stk := s.PanicInfo()
				return []mc.Viol{{Key: "panic", Desc: fmt.Sprint(pv, stk)}}
			}
			if out != mc.Quiescent {
				return nil
			}
			slowRefused := 0
			for _, c := range mw.conns {
				var r Response
				truncated := sc.frags == 3 && c.id == 1
				if truncated {
					// the abandoned request: a negative reply, no callback, closed once
					if err := r.Unmarshal(append([]byte{}, c.out...)); err != nil || r.Result {
						v = append(v, mc.Viol{Key: "abandoned-request-not-refused", Desc: fmt.Sprintf("connection %d sent a truncated request and received %x (err %v)", c.id, c.out, err)})
					}
					if c.closed != 1 {
						v = append(v, mc.Viol{Key: "connection-close-discipline", Desc: fmt.Sprintf("connection %d closed %d times", c.id, c.closed)})
					}
					continue
				}
				if err := r.Unmarshal(append([]byte{}, c.out...)); err != nil {
					v = append(v, mc.Viol{Key: "connection-reply-undecodable", Desc: fmt.Sprintf("connection %d received %x: %v", c.id, c.out, err)})
					continue
				}
				wantOK := c.id%2 == 0 && c.id%3 != 2
				me := fmt.Sprintf("%duser", c.id)
				key := fmt.Sprintf("%duser/%dpw/%dsvc/", c.id, c.id, c.id)
				if sc.frags == 6 && c.timedOut > 0 && !r.Result && mw.calls[key] == 0 {
					// a server that limits the time a client may take for its request may refuse the slow
					// client - with exactly one negative reply and without calling the callback
					if c.closed != 1 || c.afterCl != 0 {
						v = append(v, mc.Viol{Key: "connection-close-discipline", Desc: fmt.Sprintf("connection %d closed %d times, %d writes after close", c.id, c.closed, c.afterCl)})
					}
					slowRefused++
					continue
				}
				if r.Result != wantOK || !strings.Contains(r.Message, me) {
					v = append(v, mc.Viol{Key: "connection-received-foreign-or-wrong-reply", Desc: fmt.Sprintf("connection %d (login %s, expected verdict %v) received verdict %v message %q", c.id, me, wantOK, r.Result, r.Message)})
				}
				if c.closed != 1 || c.afterCl != 0 {
					v = append(v, mc.Viol{Key: "connection-close-discipline", Desc: fmt.Sprintf("connection %d closed %d times, %d writes after close", c.id, c.closed, c.afterCl)})
				}
				if mw.calls[key] != 1 {
					v = append(v, mc.Viol{Key: "callback-count", Desc: fmt.Sprintf("callback called %d times with the fields of connection %d (all calls: %v)", mw.calls[key], c.id, mw.calls)})
				}
			}
			wantCalls := len(mw.conns) - slowRefused
			if sc.frags == 3 {
				wantCalls--
			}
			if len(mw.calls) != wantCalls {
				v = append(v, mc.Viol{Key: "callback-with-mixed-fields", Desc: fmt.Sprintf("callback argument tuples seen: %v", mw.calls)})
			}
			return v
		},
		Observe: func(s *mc.Sched, out mc.Outcome) string {
			var sb strings.Builder
			sb.WriteString(out.String())
			for _, c := range mw.conns {
				fmt.Fprintf(&sb, " c%d=%x", c.id, c.out)
			}
			return sb.String()
		},
		Cleanup: func() { mw = nil },
	}
	if rp != "" {
		v, trace, out := mc.Replay(h, mc.Options{Order: rpl.Replay.Order}, rpl.Replay.Choices)
		fmt.Println("REPLAY outcome:", out)
		for _, l := range trace {
			fmt.Println("  ", l)
		}
		for _, x := range v {
			fmt.Printf("V|%s|%s|%s\n", x.Key, rp, strings.ReplaceAll(x.Desc, "\n", " "))
		}
		ev.Add("evaluations", 1)
		ev.Finish()
		return
	}
	modes := []mc.Options{{Bound: -1, Prune: true, MaxSteps: 3000}}
	b := 2
	if ev.Thorough() {
		b = 3
	}
	for order := 0; order < 2; order++ {
		modes = append(modes, mc.Options{Bound: b, AllCost: true, Order: order, MaxSteps: 3000})
	}
	for _, o := range modes {
		o.Deadline = deadline
		name := fmt.Sprintf("bound=%d prune=%v order=%d", o.Bound, o.Prune, o.Order)
		o.Report = func(v mc.Viol, choices []int, trace []string) {
			ev.Violation(v.Key, fmt.Sprintf("[scenario %s, %s] %s", sc.name, name, v.Desc), map[string]any{"scenario": sc.name, "order": o.Order, "choices": choices, "trace": trace})
		}
		st := mc.Explore(h, o)
		ev.Add("evaluations", st.Executions)
		ev.Add("transitions", st.Transitions)
		ev.Add("states", st.States)
		ev.Add("traces_validated_against_impl", st.Executions)
		for k := range st.Terminal {
			ev.Distinct(sc.name + k)
		}
		if !st.Complete {
			ev.NotExhaustive(fmt.Sprintf("%s %s stopped early after %d executions", sc.name, name, st.Executions))
		}
		fmt.Printf("MC sasl %s %s: executions=%d states=%d terminal=%d viol=%d\n", sc.name, name, st.Executions, st.States, len(st.Terminal), st.Violations)
	}
	ev.Sample(map[string]any{"scenario": sc.name, "connections": sc.n, "fragments_per_request": sc.frags})
	ev.Rule = "every schedule of the rewritten accept loop + per-connection handlers for the scenario (full reachability with state-key pruning, plus deviation-bounded DFS under two canonical orders); scheduling points: accept, every read, write, close and callback; distinct = distinct terminal observations (bytes received per connection)"
	ev.Finish()
}
