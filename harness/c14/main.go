// C14 — written records follow the schema and the configured parameters exactly.
//
// Exhaustive enumeration over a grid of configuration files (generated YAML, loaded with
// store.NewDirFromConfig) x passwords x write paths; every written record is parsed and
// its digest recomputed independently from the YAML numbers with x/crypto primitives.
package main

import (
	"bytes"
	"crypto/hmac"
	"crypto/sha256"
	"encoding/base64"
	"fmt"
	"os"
	"path/filepath"
	"regexp"
	"strconv"
	"strings"
	"sync"
	"time"

	"golang.org/x/crypto/argon2"
	"golang.org/x/crypto/scrypt"

	"github.com/whawty/auth/internal/verifev"
	"github.com/whawty/auth/internal/verifx"
	"github.com/whawty/auth/store"
)

var ev *verifev.Run

type pset struct {
	id      uint
	scrypt  bool
	cost    uint
	r, p    int // 0 = unset
	key     string
	t, m, l uint32
	th      uint8
}

func (ps pset) yaml() string {
	if ps.scrypt {
		s := fmt.Sprintf("  - id: %d\n    scryptauth:\n      hmackey: %s\n      cost: %d\n", ps.id, ps.key, ps.cost)
		if ps.r != 0 {
			s += fmt.Sprintf("      r: %d\n", ps.r)
		}
		if ps.p != 0 {
			s += fmt.Sprintf("      p: %d\n", ps.p)
		}
		return s
	}
	return fmt.Sprintf("  - id: %d\n    argon2id:\n      time: %d\n      memory: %d\n      threads: %d\n      length: %d\n", ps.id, ps.t, ps.m, ps.th, ps.l)
}

func (ps pset) format() string {
	if ps.scrypt {
		return "hmac_sha256_scrypt"
	}
	return "argon2id"
}

// digest recomputes the schema's function independently of the store package.
func (ps pset) digest(pw string, salt []byte) ([]byte, error) {
	if !ps.scrypt {
		return argon2.IDKey([]byte(pw), salt, ps.t, ps.m, ps.th, ps.l), nil
	}
	r, p := ps.r, ps.p
	if r == 0 {
		r = 8
	}
	if p == 0 {
		p = 1
	}
	k, err := scrypt.Key([]byte(pw), salt, 1<<ps.cost, r, p, 32)
	if err != nil {
		return nil, err
	}
	key, _ := base64.StdEncoding.DecodeString(ps.key)
	h := hmac.New(sha256.New, key)
	h.Write(k)
	return h.Sum(nil), nil
}

type cfg struct {
	sets []pset
	def  uint
}

var keys = []string{verifx.HmacKeyB64, "AAECAwQFBgcICQoLDA0ODxAREhMUFRYXGBkaGxwdHh8="}

func configs(thorough bool) []cfg {
	var out []cfg
	for _, cost := range []uint{1, 2, 5} {
		for _, r := range []int{0, 1, 3} {
			for _, p := range []int{0, 1, 2} {
				for _, k := range keys {
					out = append(out, cfg{sets: []pset{{id: 7, scrypt: true, cost: cost, r: r, p: p, key: k}}, def: 7})
				}
			}
		}
	}
	for _, t := range []uint32{1, 2} {
		for _, m := range []uint32{8, 19, 64} {
			for _, th := range []uint8{1, 2, 3} {
				for _, l := range []uint32{4, 16, 32, 33} {
					out = append(out, cfg{sets: []pset{{id: 3, t: t, m: m, th: th, l: l}}, def: 3})
				}
			}
		}
	}
	// numeric edge tuples (large thread counts, memory below/above the usual, long digests,
	// many rounds; scrypt with larger cost / r / p)
	for _, e := range [][4]uint32{{1, 8, 16, 16}, {1, 8, 17, 16}, {1, 8, 33, 16}, {1, 8, 64, 16}, {1, 8, 255, 16}, {3, 8, 1, 16}, {10, 8, 1, 16}, {1, 4096, 1, 16}, {1, 65536, 4, 32},
		{1, 7, 1, 16}, {1, 0, 1, 16}, {1, 8, 1, 1}, {1, 8, 1, 64}, {1, 8, 1, 512}, {2, 100, 5, 20}} {
		out = append(out, cfg{sets: []pset{{id: 6, t: e[0], m: e[1], th: uint8(e[2]), l: e[3]}}, def: 6})
	}
	for _, e := range [][3]int{{10, 0, 0}, {14, 0, 0}, {8, 8, 1}, {6, 16, 1}, {6, 1, 16}, {4, 4, 4}, {1, 64, 0}, {1, 0, 64}} {
		out = append(out, cfg{sets: []pset{{id: 8, scrypt: true, cost: uint(e[0]), r: e[1], p: e[2], key: keys[0]}}, def: 8})
	}
	// several sets, every default (incl. one that is neither first nor lowest)
	multi := []pset{
		{id: 5, scrypt: true, cost: 2, r: 2, p: 1, key: keys[0]},
		{id: 2, t: 1, m: 16, th: 2, l: 24},
		{id: 9, scrypt: true, cost: 1, key: keys[1]},
		{id: 4, t: 2, m: 8, th: 1, l: 16},
	}
	for _, d := range []uint{5, 2, 9, 4} {
		out = append(out, cfg{sets: multi, def: d})
	}
	return out
}

var (
	saltMu sync.Mutex
	salts  = map[string]string{}
)

var lineRe = regexp.MustCompile(`^(argon2id|hmac_sha256_scrypt):([0-9]+):([0-9]+):([A-Za-z0-9_-]+={0,2}):([A-Za-z0-9_-]+={0,2})$`)

func main() {
	ev = verifev.New("C14", "records")
	cfgs := configs(ev.Thorough())
	binpw := "p:\nw\x00\xff\xfe:z"
	long := strings.Repeat("0123456789", 7)
	// (the last ones end or start with bytes an implementation might be tempted to strip)
	pws := []string{"", "x", long, binpw, "correct horse", "line\n", "crlf\r\n", "nul\x00", " lead and trail ", "\n", "\ttab",
		// lengths around the limits of the transports and of typical buffers: the library itself has none
		strings.Repeat("k", 64), strings.Repeat("k", 65), strings.Repeat("k", 255), strings.Repeat("k", 256), strings.Repeat("k", 257), strings.Repeat("q", 1000), strings.Repeat("z", 4097), strings.Repeat("L", 70000)}
	writes := 6
	if ev.Thorough() {
		writes = 60
	}
	ev.Rule = fmt.Sprintf("%d generated YAML configurations (scrypt cost x r x p x key incl. defaulted r/p; argon2id time x memory x threads x length; multi-set stores with every default) x %d passwords x write paths add/update; %d further writes per configuration for salt uniqueness; distinct = distinct (configuration, password, path) records checked",
		len(cfgs), len(pws), writes)
	ev.Assumptions = []string{"x/crypto argon2/scrypt primitives are trusted as the reference for the digest function", "salt freshness is checked as pairwise distinctness over all writes of the run (cannot be enumerated)"}
	verifx.Parallel(len(cfgs), func(w, i int) {
		runCfg(i, cfgs[i], pws, writes)
	})
	ev.Set("distinct_salts", len(salts))
	ev.Finish()
}

func runCfg(ci int, c cfg, pws []string, writes int) {
	root := verifx.Scratch("c14")
	defer os.RemoveAll(root)
	base := filepath.Join(root, "store")
	os.MkdirAll(base, 0700) //nolint:errcheck
	y := fmt.Sprintf("basedir: %s\ndefault: %d\nparams:\n", strconv.Quote(base), c.def)
	var dset pset
	for _, s := range c.sets {
		y += s.yaml()
		if s.id == c.def {
			dset = s
		}
	}
	cf := filepath.Join(root, "store.yaml")
	os.WriteFile(cf, []byte(y), 0600) //nolint:errcheck
	name := fmt.Sprintf("cfg%d(default=%d %s)", ci, c.def, strings.ReplaceAll(strings.TrimSpace(dset.yaml()), "\n", ""))
	viol := func(kind, format string, a ...any) {
		ev.Violation(kind+":"+dset.format(), "["+name+"] "+fmt.Sprintf(format, a...), map[string]any{"yaml": y})
	}
	d, err := store.NewDirFromConfig(cf)
	if err != nil {
		viol("config-rejected", "valid configuration rejected: %v", err)
		return
	}
	check := func(user, pw, path, aux string, t0, t1 int64) {
		ev.Add("evaluations", 1)
		f := filepath.Join(base, user+".user")
		b, err := os.ReadFile(f)
		if err != nil {
			viol("no-file", "%s: %v", path, err)
			return
		}
		line, rest, hasNL := strings.Cut(string(b), "\n")
		if !hasNL {
			viol("no-newline", "%s: record line is not newline-terminated: %q", path, b)
		}
		if rest != aux {
			viol("aux-changed", "%s: bytes after the record line are %q, want %q", path, rest, aux)
		}
		m := lineRe.FindStringSubmatch(line)
		if m == nil {
			viol("schema-mismatch", "%s: record line %q does not match the schema", path, line)
			return
		}
		if m[1] != dset.format() {
			viol("wrong-algorithm", "%s: algorithm %s, default set %d is %s", path, m[1], c.def, dset.format())
		}
		if m[3] != fmt.Sprint(c.def) {
			viol("wrong-paramid", "%s: parameter-set id %s, configured default %d", path, m[3], c.def)
		}
		ts, _ := strconv.ParseInt(m[2], 10, 64)
		if ts < t0 || ts > t1 {
			viol("wrong-time", "%s: timestamp %d outside [%d,%d]", path, ts, t0, t1)
		}
		salt, e1 := base64.URLEncoding.DecodeString(m[4])
		dig, e2 := base64.URLEncoding.DecodeString(m[5])
		if e1 != nil || e2 != nil {
			viol("not-urlsafe-base64", "%s: salt/digest are not padded URL-safe base64: %v %v", path, e1, e2)
			return
		}
		wantSalt := 16
		if dset.scrypt {
			wantSalt = 32
		}
		if len(salt) != wantSalt {
			viol("salt-size", "%s: salt has %d bytes, schema says %d", path, len(salt), wantSalt)
		}
		saltMu.Lock()
		if prev, dup := salts[string(salt)]; dup {
			saltMu.Unlock()
			viol("salt-reused", "%s: salt %x already used by %s", path, salt, prev)
		} else {
			salts[string(salt)] = name + " " + path
			saltMu.Unlock()
		}
		if bytes.Count(salt, []byte{salt[0]}) == len(salt) {
			viol("salt-constant", "%s: salt consists of one repeated byte %x", path, salt[0])
		}
		want, err := dset.digest(pw, salt)
		if err != nil {
			viol("reference-failed", "reference digest failed: %v", err)
			return
		}
		if !bytes.Equal(want, dig) {
			viol("digest-mismatch", "%s: stored digest %x differs from the independent recomputation %x for password %s", path, dig, want, verifx.Q(pw))
		}
		// secrets never appear under the base directory
		whole := verifx.Snap(base)
		for fn, content := range whole {
			if len(pw) >= 4 && strings.Contains(content, pw) {
				viol("password-in-store", "%s: raw password found in %s", path, fn)
			}
			if dset.scrypt {
				raw, _ := base64.StdEncoding.DecodeString(dset.key)
				if strings.Contains(content, dset.key) || strings.Contains(content, string(raw)) || strings.Contains(content, base64.URLEncoding.EncodeToString(raw)) {
					viol("hmackey-in-store", "%s: HMAC key found in %s", path, fn)
				}
			}
		}
		ev.Distinct(fmt.Sprintf("%d|%s|%s", ci, pw, path))
	}
	for pi, pw := range pws {
		u := fmt.Sprintf("u%d", pi)
		t0 := time.Now().Unix()
		if err := d.AddUser(u, pw, false); err != nil {
			viol("add-failed", "AddUser(%s,%s): %v", u, verifx.Q(pw), err)
			continue
		}
		check(u, pw, "add", "", t0, time.Now().Unix())
		// update to the "next" password, with auxiliary lines present
		aux := "aux1: x\n\x00binary\xff\nlast-without-newline"
		f := filepath.Join(base, u+".user")
		b, _ := os.ReadFile(f)
		os.WriteFile(f, append(b, aux...), 0600) //nolint:errcheck
		npw := pws[(pi+1)%len(pws)]
		t0 = time.Now().Unix()
		if err := d.UpdateUser(u, npw); err != nil {
			viol("update-failed", "UpdateUser(%s): %v", u, err)
			continue
		}
		check(u, npw, "update", aux, t0, time.Now().Unix())
		if ok, _, _, _, _ := d.Authenticate(u, npw); !ok {
			viol("self-verify", "library does not verify its own record")
		}
	}
	for k := 0; k < writes; k++ {
		t0 := time.Now().Unix()
		if err := d.UpdateUser("u1", "again"); err != nil {
			viol("update-failed", "UpdateUser: %v", err)
			break
		}
		check("u1", "again", "rewrite", "aux1: x\n\x00binary\xff\nlast-without-newline", t0, time.Now().Unix())
	}
	if ci%40 == 0 {
		b, _ := os.ReadFile(filepath.Join(base, "u1.user"))
		ev.Sample(map[string]any{"config": name, "record": string(b)})
	}
}
