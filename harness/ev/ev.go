// Package verifev is the small reporting library shared by all Go harnesses of /verif.
// It is mounted into the repo module as github.com/whawty/auth/internal/verifev by the
// build overlay (see /verif/check). A harness creates one Run, counts what it explores,
// reports violations (each with a replay artefact) and writes a partial evidence file
// that /verif/check merges into /verif/evidence/<ID>.json.
package verifev

import (
	"crypto/sha256"
	"encoding/hex"
	"encoding/json"
	"fmt"
	"os"
	"path/filepath"
	"sort"
	"strconv"
	"strings"
	"sync"
	"time"
)

type Run struct {
	mu          sync.Mutex
	Property    string
	Part        string
	Tier        string
	Seed        int
	start       time.Time
	counts      map[string]int64
	distinct    map[string]struct{}
	samples     []any
	maxSamples  int
	violKeys    map[string]struct{}
	Rule        string
	Exhaustive  bool
	Notes       []string
	Assumptions []string
	extra       map[string]any
}

func New(property, part string) *Run {
	// replay artefacts are labelled with the name the part has in the registry of /verif/check
	if pn := os.Getenv("VERIF_PART_NAME"); pn != "" && part != pn && !strings.HasPrefix(part, pn+"-") && !strings.HasPrefix(pn, part+"-") {
		part = pn
	}
	r := &Run{Property: property, Part: part, start: time.Now()}
	r.Tier = os.Getenv("VERIF_TIER")
	if r.Tier == "" {
		r.Tier = "quick"
	}
	r.Seed, _ = strconv.Atoi(os.Getenv("VERIF_SEED"))
	r.counts = map[string]int64{}
	r.distinct = map[string]struct{}{}
	r.violKeys = map[string]struct{}{}
	r.extra = map[string]any{}
	r.maxSamples = 6
	r.Exhaustive = true
	return r
}

func (r *Run) Thorough() bool { return r.Tier == "thorough" }

// Add adds n to counter name ("evaluations", "states", "transitions",
// "traces_validated_against_impl", or anything else).
func (r *Run) Add(name string, n int) {
	r.mu.Lock()
	r.counts[name] += int64(n)
	r.mu.Unlock()
}

func (r *Run) Get(name string) int64 {
	r.mu.Lock()
	defer r.mu.Unlock()
	return r.counts[name]
}

// Distinct records one non-trivial case/outcome by a canonical string.
func (r *Run) Distinct(s string) {
	h := sha256.Sum256([]byte(s))
	r.mu.Lock()
	r.distinct[string(h[:12])] = struct{}{}
	r.mu.Unlock()
}

func (r *Run) Sample(x any) {
	r.mu.Lock()
	if len(r.samples) < r.maxSamples {
		r.samples = append(r.samples, x)
	}
	r.mu.Unlock()
}

func (r *Run) Set(key string, v any) {
	r.mu.Lock()
	r.extra[key] = v
	r.mu.Unlock()
}

func (r *Run) Note(format string, a ...any) {
	r.mu.Lock()
	r.Notes = append(r.Notes, fmt.Sprintf(format, a...))
	r.mu.Unlock()
}

// NotExhaustive marks that a cap / deadline was hit.
func (r *Run) NotExhaustive(why string) {
	r.mu.Lock()
	r.Exhaustive = false
	r.Notes = append(r.Notes, "not exhaustive: "+why)
	r.mu.Unlock()
}

func (r *Run) NumViolations() int {
	r.mu.Lock()
	defer r.mu.Unlock()
	return len(r.violKeys)
}

// Violation reports one violation. key is a stable identifier of *what* fails (used to
// match /verif/known_findings.txt); replay is any JSON-serialisable description that
// allows the case to be re-run.
func (r *Run) Violation(key, desc string, replay any) {
	r.mu.Lock()
	defer r.mu.Unlock()
	if _, dup := r.violKeys[key]; dup {
		return
	}
	if len(r.violKeys) >= 40 {
		return
	}
	r.violKeys[key] = struct{}{}
	dir := os.Getenv("VERIF_REPLAY_DIR")
	if dir == "" {
		dir = "/verif/replay"
	}
	os.MkdirAll(dir, 0755) //nolint:errcheck
	h := sha256.Sum256([]byte(key))
	path := filepath.Join(dir, fmt.Sprintf("%s-%s-%s.json", r.Property, r.Part, hex.EncodeToString(h[:5])))
	b, _ := json.MarshalIndent(map[string]any{"property": r.Property, "part": r.Part, "key": key, "description": desc, "replay": replay}, "", " ")
	os.WriteFile(path, b, 0644) //nolint:errcheck
	fmt.Printf("V|%s|%s|%s\n", key, path, oneline(desc))
}

func oneline(s string) string {
	b := []byte(s)
	for i, c := range b {
		if c == '\n' || c == '\r' || c == '|' {
			b[i] = ' '
		}
	}
	if len(b) > 600 {
		b = append(b[:600], "..."...)
	}
	return string(b)
}

// Finish writes the partial evidence file named by $VERIF_EVIDENCE_PART.
func (r *Run) Finish() {
	r.mu.Lock()
	defer r.mu.Unlock()
	cov := map[string]any{}
	keys := make([]string, 0, len(r.counts))
	for k := range r.counts {
		keys = append(keys, k)
	}
	sort.Strings(keys)
	for _, k := range keys {
		cov[k] = r.counts[k]
	}
	for k, v := range r.extra {
		cov[k] = v
	}
	cov["distinct_nontrivial"] = len(r.distinct)
	cov["rule"] = r.Rule
	if r.samples == nil {
		r.samples = []any{}
	}
	cov["samples"] = r.samples
	cov["exhaustive"] = r.Exhaustive
	if len(r.Notes) > 0 {
		cov["notes"] = r.Notes
	}
	out := map[string]any{
		"property_id": r.Property,
		"part":        r.Part,
		"tier":        r.Tier,
		"seed":        r.Seed,
		"coverage":    cov,
		"assumptions": r.Assumptions,
		"wall_s":      time.Since(r.start).Seconds(),
		"violations":  len(r.violKeys),
	}
	b, _ := json.MarshalIndent(out, "", " ")
	p := os.Getenv("VERIF_EVIDENCE_PART")
	if p == "" {
		fmt.Println(string(b))
		return
	}
	if err := os.WriteFile(p, b, 0644); err != nil {
		fmt.Fprintln(os.Stderr, "cannot write evidence part:", err)
		os.Exit(2)
	}
}
