// C18 (loader part) — configuration loading is exact; every accepted parameter set hashes
// and verifies or fails with an error, never crashing.
//
// Exhaustive enumeration of YAML documents derived from valid configurations by field
// deletion, duplication, type change, unknown keys and numeric edge values; the verdict of
// store.NewDirFromConfig is compared with a three-valued reference predicate (must accept /
// must reject / unspecified), and every accepted document is exercised (add + authenticate
// under every defined set) in a WORKER SUBPROCESS so that a panic or fatal error is
// observed rather than suffered.
package main

import (
	"fmt"
	"os"
	"os/exec"
	"path/filepath"
	"sort"
	"strconv"
	"strings"
	"time"

	"github.com/whawty/auth/internal/verifev"
	"github.com/whawty/auth/internal/verifx"
	"github.com/whawty/auth/store"
)

// ---- tiny ordered YAML document model ---------------------------------------------------

type kv struct {
	k string
	v any // string (raw scalar text) | []kv (mapping) | []any (sequence)
}

func render(v any, ind string, sb *strings.Builder) {
	switch x := v.(type) {
	case string:
		sb.WriteString(" " + x + "\n")
	case []kv:
		if len(x) == 0 {
			sb.WriteString(" {}\n")
			return
		}
		sb.WriteString("\n")
		for _, e := range x {
			sb.WriteString(ind + e.k + ":")
			render(e.v, ind+"  ", sb)
		}
	case []any:
		if len(x) == 0 {
			sb.WriteString(" []\n")
			return
		}
		sb.WriteString("\n")
		for _, e := range x {
			m, ok := e.([]kv)
			if !ok {
				sb.WriteString(ind + "-")
				render(e, ind+"  ", sb)
				continue
			}
			for i, f := range m {
				if i == 0 {
					sb.WriteString(ind + "- " + f.k + ":")
				} else {
					sb.WriteString(ind + "  " + f.k + ":")
				}
				render(f.v, ind+"    ", sb)
			}
			if len(m) == 0 {
				sb.WriteString(ind + "- {}\n")
			}
		}
	}
}

func doc(top []kv) string {
	var sb strings.Builder
	for _, e := range top {
		sb.WriteString(e.k + ":")
		render(e.v, "  ", &sb)
	}
	return sb.String()
}

func clone(v any) any {
	switch x := v.(type) {
	case []kv:
		n := make([]kv, len(x))
		for i, e := range x {
			n[i] = kv{e.k, clone(e.v)}
		}
		return n
	case []any:
		n := make([]any, len(x))
		for i, e := range x {
			n[i] = clone(e)
		}
		return n
	}
	return v
}

// ---- reference predicate -----------------------------------------------------------------

type verdict int

const (
	mustAccept verdict = iota
	mustReject
	either
)

func (v verdict) String() string { return [...]string{"must-accept", "must-reject", "unspecified"}[v] }

func isUint(s string) (uint64, bool) {
	if s == "" {
		return 0, false
	}
	var n uint64
	for _, c := range s {
		if c < '0' || c > '9' {
			return 0, false
		}
		d := uint64(c - '0')
		if n > (^uint64(0)-d)/10 {
			return 0, false
		}
		n = n*10 + d
	}
	return n, true
}

func get(m []kv, k string) (any, int) {
	var v any
	n := 0
	for _, e := range m {
		if e.k == k {
			v = e.v
			n++
		}
	}
	return v, n
}

// judge implements the property statement: non-empty base directory, ids > 0, exactly one
// algorithm per set, a default naming a defined set (or no sets at all), no unknown keys,
// correct types.  Anything the statement does not decide is `either`.
func judge(top []kv) verdict {
	res := mustAccept
	weaken := func() {
		if res == mustAccept {
			res = either
		}
	}
	known := map[string]bool{"basedir": true, "default": true, "params": true}
	for _, e := range top {
		if !known[e.k] {
			return mustReject
		}
		if _, n := get(top, e.k); n > 1 {
			weaken() // duplicated key: YAML-level question, unspecified
		}
	}
	bd, n := get(top, "basedir")
	if n == 0 {
		return mustReject
	}
	bs, ok := bd.(string)
	if !ok {
		return mustReject
	}
	if bs == `""` || bs == "" || bs == "~" || bs == "null" {
		return mustReject
	}
	if !strings.HasPrefix(bs, `"/`) {
		weaken() // scalar of another type given as directory
	}
	def := uint64(0)
	if dv, n := get(top, "default"); n > 0 {
		ds, ok := dv.(string)
		if !ok {
			return mustReject
		}
		d, isU := isUint(ds)
		if !isU {
			if ds == "~" || ds == "null" || ds == "" || numericLooking(ds) {
				return either // how YAML converts other numeric notations is not the statement's business
			} else {
				return mustReject
			}
		}
		def = d
	}
	ids := map[uint64]bool{}
	if pv, n := get(top, "params"); n > 0 {
		seq, ok := pv.([]any)
		if !ok {
			if s, isS := pv.(string); isS && (s == "~" || s == "null" || s == "") {
				seq = nil
			} else {
				return mustReject
			}
		}
		for _, it := range seq {
			m, ok := it.([]kv)
			if !ok {
				return mustReject
			}
			for _, e := range m {
				if e.k != "id" && e.k != "scryptauth" && e.k != "argon2id" {
					return mustReject
				}
				if _, n := get(m, e.k); n > 1 {
					weaken()
				}
			}
			idv, n := get(m, "id")
			if n == 0 {
				return mustReject // id defaults to 0, which is reserved
			}
			ids_, ok := idv.(string)
			if !ok {
				return mustReject
			}
			id, isU := isUint(ids_)
			if !isU {
				if numericLooking(ids_) {
					return either
				}
				return mustReject
			}
			if id == 0 {
				return mustReject
			}
			if ids[id] {
				weaken() // two sets with one id: unspecified
			}
			ids[id] = true
			nalg := 0
			for _, alg := range []string{"scryptauth", "argon2id"} {
				av, n := get(m, alg)
				if n == 0 {
					continue
				}
				if s, isS := av.(string); isS {
					if s == "~" || s == "null" || s == "" {
						continue // explicit null = absent
					}
					return mustReject
				}
				am, ok := av.([]kv)
				if !ok {
					return mustReject
				}
				nalg++
				allowed := map[string]bool{"time": true, "memory": true, "threads": true, "length": true}
				if alg == "scryptauth" {
					allowed = map[string]bool{"hmackey": true, "cost": true, "r": true, "p": true}
				}
				for _, f := range am {
					if !allowed[f.k] {
						return mustReject
					}
					if _, n := get(am, f.k); n > 1 {
						weaken()
					}
					fs, ok := f.v.(string)
					if !ok {
						return mustReject
					}
					if f.k == "hmackey" {
						if fs != verifx.HmacKeyB64 {
							weaken()
						}
						continue
					}
					v, isU := isUint(fs)
					if !isU && (numericLooking(fs) || fs == "~" || fs == "null" || fs == "") {
						weaken()
						continue
					}
					if !isU {
						if (f.k == "r" || f.k == "p") && strings.HasPrefix(fs, "-") {
							if _, ok := isUint(fs[1:]); ok {
								weaken()
								continue
							}
						}
						return mustReject
					}
					// range limits of the Go types
					switch f.k {
					case "threads":
						if v > 255 {
							return mustReject
						}
					case "time", "memory", "length":
						if v > 1<<32-1 {
							return mustReject
						}
					case "r", "p":
						if v > 1<<62 {
							weaken()
						}
					}
					// usability of the values is not the loader's business per the statement:
					// it may accept (then hashing must fail cleanly) or refuse
					if v == 0 || (f.k == "cost" && v > 14) {
						weaken()
					}
				}
				if alg == "scryptauth" {
					if _, n := get(am, "hmackey"); n == 0 {
						weaken()
					}
					if _, n := get(am, "cost"); n == 0 {
						weaken()
					}
				} else {
					for _, need := range []string{"time", "threads", "length"} {
						if _, n := get(am, need); n == 0 {
							weaken()
						}
					}
				}
			}
			if nalg != 1 {
				return mustReject
			}
		}
	}
	if len(ids) == 0 {
		if def != 0 {
			weaken() // "no sets at all" with a non-zero default: unspecified
		}
		return res
	}
	if !ids[def] {
		return mustReject
	}
	return res
}

// numericLooking: positive numbers in a notation other than plain decimal digits (hex,
// float, exponent) - YAML converts some of them to integers.
func numericLooking(s string) bool {
	if s == "" || s[0] == '-' {
		return false
	}
	if strings.HasPrefix(s, "0x") {
		_, err := strconv.ParseUint(s[2:], 16, 64)
		return err == nil
	}
	_, err := strconv.ParseFloat(s, 64)
	return err == nil
}

// ---- document generation -------------------------------------------------------------------

func argon(t, m, th, l string) []kv {
	return []kv{{"time", t}, {"memory", m}, {"threads", th}, {"length", l}}
}

func scr(cost, r, p string) []kv {
	m := []kv{{"hmackey", verifx.HmacKeyB64}, {"cost", cost}}
	if r != "" {
		m = append(m, kv{"r", r})
	}
	if p != "" {
		m = append(m, kv{"p", p})
	}
	return m
}

func bases(dir string) [][]kv {
	q := `"` + dir + `"`
	return [][]kv{
		{{"basedir", q}, {"default", "1"}, {"params", []any{[]kv{{"id", "1"}, {"argon2id", argon("1", "8", "1", "16")}}}}},
		{{"basedir", q}, {"default", "2"}, {"params", []any{
			[]kv{{"id", "2"}, {"scryptauth", scr("1", "1", "1")}},
			[]kv{{"id", "1"}, {"argon2id", argon("2", "16", "2", "32")}}}}},
		{{"basedir", q}},
		{{"basedir", q}, {"default", "0"}, {"params", []any{}}},
	}
}

type mutant struct {
	name string
	top  []kv
	raw  string // if non-empty, the literal document
}

// walk visits every mapping of the document.
func walk(v any, path string, f func(m *[]kv, path string)) any {
	switch x := v.(type) {
	case []kv:
		f(&x, path)
		for i := range x {
			x[i].v = walk(x[i].v, path+"."+x[i].k, f)
		}
		return x
	case []any:
		for i := range x {
			x[i] = walk(x[i], fmt.Sprintf("%s[%d]", path, i), f)
		}
		return x
	}
	return v
}

// count mappings' fields to address mutation sites
type site struct {
	path string
	idx  int
}

func sites(top []kv) []site {
	var out []site
	walk(clone(top), "", func(m *[]kv, path string) {
		for i := range *m {
			out = append(out, site{path, i})
		}
	})
	return out
}

func mutateAt(top []kv, s site, f func(m *[]kv, i int)) []kv {
	c := clone(top).([]kv)
	done := false
	res := walk(c, "", func(m *[]kv, path string) {
		if path == s.path && !done {
			done = true
			f(m, s.idx)
		}
	})
	return res.([]kv)
}

func mapSites(top []kv) []string {
	var out []string
	walk(clone(top), "", func(m *[]kv, path string) { out = append(out, path) })
	return out
}

func generate(dir string, thorough bool) []mutant {
	var out []mutant
	for bi, b := range bases(dir) {
		bn := fmt.Sprintf("base%d", bi)
		out = append(out, mutant{name: bn + ":unchanged", top: b})
		for _, s := range sites(b) {
			s := s
			out = append(out, mutant{name: fmt.Sprintf("%s:delete%s#%d", bn, s.path, s.idx), top: mutateAt(b, s, func(m *[]kv, i int) {
				*m = append((*m)[:i:i], (*m)[i+1:]...)
			})})
			out = append(out, mutant{name: fmt.Sprintf("%s:duplicate%s#%d", bn, s.path, s.idx), top: mutateAt(b, s, func(m *[]kv, i int) {
				*m = append(*m, kv{(*m)[i].k, clone((*m)[i].v)})
			})})
			keyAt := ""
			walk(clone(b), "", func(m *[]kv, path string) {
				if path == s.path && s.idx < len(*m) {
					keyAt = (*m)[s.idx].k
				}
			})
			for _, nv := range []any{"abc", `"7"`, "-1", "1.5", "0", "1", "255", "256", "257", "512", "65535", "65536", "4294967295", "4294967296", "18446744073709551615", "18446744073709551616", "~", "true", []any{"1", "2"}, []kv{{"x", "1"}}, "0x10", "1e3"} {
				nv := nv
				if sv, ok := nv.(string); ok && (keyAt == "memory" || keyAt == "time" || keyAt == "length" || keyAt == "cost" || keyAt == "r" || keyAt == "p") {
					// values whose cost exceeds the sandbox are outside the explored bound (section 7)
					if n, isU := isUint(sv); isU && n > 65536 {
						continue
					}
					if (keyAt == "cost" || keyAt == "r" || keyAt == "p") && len(sv) > 2 && sv[0] >= '1' && sv[0] <= '9' {
						if n, isU := isUint(sv); isU && n > 14 {
							continue
						}
					}
				}
				out = append(out, mutant{name: fmt.Sprintf("%s:retype%s#%d=%v", bn, s.path, s.idx, nv), top: mutateAt(b, s, func(m *[]kv, i int) {
					(*m)[i].v = clone(nv)
				})})
			}
		}
		for _, p := range mapSites(b) {
			p := p
			for _, uk := range []string{"unknown", "Basedir", "id2"} {
				uk := uk
				c := clone(b).([]kv)
				done := false
				res := walk(c, "", func(m *[]kv, path string) {
					if path == p && !done {
						done = true
						*m = append(*m, kv{uk, "1"})
					}
				})
				out = append(out, mutant{name: fmt.Sprintf("%s:unknown-key(%s)%s", bn, uk, p), top: res.([]kv)})
			}
		}
	}
	q := `"` + dir + `"`
	// both / neither algorithm, defaults, numeric edges
	out = append(out,
		mutant{name: "both-algorithms", top: []kv{{"basedir", q}, {"default", "1"}, {"params", []any{[]kv{{"id", "1"}, {"argon2id", argon("1", "8", "1", "16")}, {"scryptauth", scr("1", "", "")}}}}}},
		mutant{name: "neither-algorithm", top: []kv{{"basedir", q}, {"default", "1"}, {"params", []any{[]kv{{"id", "1"}}}}}},
		mutant{name: "default-undefined", top: []kv{{"basedir", q}, {"default", "5"}, {"params", []any{[]kv{{"id", "1"}, {"argon2id", argon("1", "8", "1", "16")}}}}}},
		mutant{name: "default-of-second-set", top: []kv{{"basedir", q}, {"default", "4294967296"}, {"params", []any{[]kv{{"id", "1"}, {"argon2id", argon("1", "8", "1", "16")}}, []kv{{"id", "4294967296"}, {"scryptauth", scr("2", "", "")}}}}}},
		mutant{name: "empty-file", raw: ""},
		mutant{name: "only-comment", raw: "# nothing\n"},
		mutant{name: "not-a-mapping", raw: "- a\n- b\n"},
		mutant{name: "garbage", raw: "\x00\xff{{{"},
		mutant{name: "two-documents", raw: "basedir: " + q + "\n---\nbasedir: \"/other\"\nunknown: 1\n"},
	)
	vals := []string{"0", "1", "2", "3"}
	for _, t := range vals[:3] {
		for _, m := range []string{"0", "1", "8", "65536"} {
			for _, th := range vals[:3] {
				for _, l := range []string{"0", "1", "4", "64"} {
					out = append(out, mutant{name: fmt.Sprintf("argon2id(%s,%s,%s,%s)", t, m, th, l), top: []kv{{"basedir", q}, {"default", "3"}, {"params", []any{[]kv{{"id", "3"}, {"argon2id", argon(t, m, th, l)}}}}}})
				}
			}
		}
	}
	for _, c := range []string{"0", "1", "14", "31", "32", "64"} {
		for _, r := range []string{"", "0", "1", "-1", "1073741824"} {
			for _, p := range []string{"", "0", "1", "-1", "1073741824"} {
				if (c == "14" || c == "31") && !(r == "1" && p == "1") && !(r == "1073741824") {
					continue // expensive without r=1,p=1
				}
				if c == "31" && r == "1" {
					continue // 2^31 * 128 bytes: far beyond the sandbox (stated limit)
				}
				out = append(out, mutant{name: fmt.Sprintf("scrypt(cost=%s,r=%s,p=%s)", c, r, p), top: []kv{{"basedir", q}, {"default", "3"}, {"params", []any{[]kv{{"id", "3"}, {"scryptauth", scr(c, r, p)}}}}}})
			}
		}
	}
	for _, k := range []string{`""`, "AAAA", "!!!notbase64", verifx.HmacKeyB64 + "AAAA"} {
		m := []kv{{"hmackey", k}, {"cost", "1"}}
		out = append(out, mutant{name: "hmackey=" + k, top: []kv{{"basedir", q}, {"default", "3"}, {"params", []any{[]kv{{"id", "3"}, {"scryptauth", m}}}}}})
	}
	return out
}

// ---- main / worker ---------------------------------------------------------------------------

var ev *verifev.Run

func main() {
	if len(os.Args) > 2 && os.Args[1] == "worker" {
		worker(os.Args[2])
		return
	}
	ev = verifev.New("C18", "loader")
	root := verifx.Scratch("c18")
	defer os.RemoveAll(root)
	storeDir := filepath.Join(root, "s")
	muts := generate(storeDir, ev.Thorough())
	ev.Rule = fmt.Sprintf("%d YAML documents: every field of 4 valid configurations deleted / duplicated / retyped with 15 replacement values, unknown keys at every mapping, both/neither algorithm, default undefined / 2^32, grids of numeric edge values for argon2id (time,memory,threads,length) and scrypt (cost,r,p), bad HMAC keys, non-mapping documents; loader verdict vs. three-valued reference; every accepted document exercised in a worker subprocess; distinct = distinct (reference verdict, loader verdict, worker result, mutation class)", len(muts))
	ev.Assumptions = []string{"parameter values whose cost exceeds the sandbox (scrypt cost > 14 with r > 1, argon2id memory > 64 MiB) are not exercised: a set demanding more memory than the machine has kills the process with an out-of-memory fatal error, which is outside the explored bound",
		"documents the statement does not decide (duplicate keys/ids, null values, unusable-but-well-typed numbers) may be accepted or rejected; if accepted they must not crash"}
	self, _ := os.Executable()
	verifx.Parallel(len(muts), func(w, i int) {
		m := muts[i]
		text := m.raw
		want := mustReject
		if m.name == "two-documents" {
			want = either // only the first document is read; the statement is silent
		}
		if m.top != nil {
			text = doc(m.top)
			want = judge(m.top)
		}
		dir := filepath.Join(root, fmt.Sprintf("w%d", w))
		os.MkdirAll(dir, 0700) //nolint:errcheck
		cf := filepath.Join(dir, fmt.Sprintf("c%d.yaml", i))
		os.WriteFile(cf, []byte(text), 0600) //nolint:errcheck
		defer os.Remove(cf)
		ev.Add("evaluations", 1)
		class := strings.SplitN(strings.SplitN(m.name, ":", 2)[len(strings.SplitN(m.name, ":", 2))-1], "#", 2)[0]
		class = strings.SplitN(class, "(", 2)[0]
		class = strings.SplitN(class, ".", 2)[0]
		class = strings.SplitN(class, "=", 2)[0]
		viol := func(kind, format string, a ...any) {
			ev.Violation(kind+":"+class, fmt.Sprintf("[%s] ", m.name)+fmt.Sprintf(format, a...)+"\n--- document:\n"+text, map[string]any{"name": m.name, "yaml": text})
		}
		var d *store.Dir
		var err error
		func() {
			defer func() {
				if r := recover(); r != nil {
					viol("loader-panic", "NewDirFromConfig panicked: %v", r)
					err = fmt.Errorf("panic")
				}
			}()
			d, err = store.NewDirFromConfig(cf)
		}()
		got := "accept"
		if err != nil {
			got = "reject"
		}
		if want == mustAccept && err != nil {
			viol("valid-config-rejected", "well-formed configuration rejected: %v", err)
		}
		if want == mustReject && err == nil {
			viol("invalid-config-accepted", "malformed configuration accepted (basedir=%q default=%d sets=%d)", d.BaseDir, d.Default, len(d.Params))
		}
		wres := "-"
		if err == nil && len(d.Params) > 0 {
			// exercise in a subprocess
			sd := filepath.Join(dir, fmt.Sprintf("store%d", i))
			os.MkdirAll(sd, 0700) //nolint:errcheck
			defer os.RemoveAll(sd)
			wcf := filepath.Join(dir, fmt.Sprintf("wc%d.yaml", i))
			os.WriteFile(wcf, []byte(strings.Replace(text, storeDir, sd, 1)), 0600) //nolint:errcheck
			defer os.Remove(wcf)
			cmd := exec.Command(self, "worker", wcf)
			cmd.Env = append(os.Environ(), "GOMEMLIMIT=2GiB")
			done := make(chan struct{})
			var out []byte
			var werr error
			go func() { out, werr = cmd.CombinedOutput(); close(done) }()
			select {
			case <-done:
			case <-time.After(120 * time.Second):
				cmd.Process.Kill() //nolint:errcheck
				<-done
				ev.NotExhaustive("worker for " + m.name + " exceeded 120 s and was stopped (no verdict)")
				wres = "timeout"
			}
			if wres != "timeout" {
				lines := strings.Split(strings.TrimSpace(string(out)), "\n")
				last := lines[len(lines)-1]
				switch {
				case werr == nil && strings.HasPrefix(last, "WORKER-OK"):
					wres = last
				default:
					wres = "crash"
					tail := string(out)
					if len(tail) > 1500 {
						tail = tail[:1500]
					}
					viol("accepted-set-crashes", "the loader accepts the configuration but using it crashes the process (%v): %s", werr, tail)
				}
			}
		}
		ev.Distinct(fmt.Sprintf("%v|%s|%s|%s", want, got, strings.SplitN(wres, " ", 2)[0], class))
		if i%97 == 0 {
			ev.Sample(map[string]any{"mutation": m.name, "reference": want.String(), "loader": got, "worker": wres})
		}
	})
	ev.Finish()
}

// worker: load the configuration, and under every defined set as default add a user and
// authenticate; prints WORKER-OK with the per-set results. A panic/fatal error kills it.
func worker(cf string) {
	d, err := store.NewDirFromConfig(cf)
	if err != nil {
		fmt.Println("WORKER-LOADFAIL", err)
		os.Exit(3)
	}
	var ids []int
	for id := range d.Params {
		ids = append(ids, int(id))
	}
	sort.Ints(ids)
	var res []string
	for _, id := range ids {
		d.Default = uint(id)
		u := fmt.Sprintf("u%d", id%1000)
		err := d.AddUser(u, "pass word", false)
		if err != nil {
			res = append(res, fmt.Sprintf("%d:add-error", id))
			continue
		}
		ok, _, _, _, err := d.Authenticate(u, "pass word")
		// (no wrong-password probe here: with a 1-byte digest length a wrong password matches
		// with probability 1/256 by design of the configured parameters - that is C01's
		// subject for sane parameters, not a crash)
		if ok {
			res = append(res, fmt.Sprintf("%d:verified", id))
		} else {
			fmt.Println("WORKER-BAD own record not verified under set", id, err)
			os.Exit(4)
		}
	}
	fmt.Println("WORKER-OK", strings.Join(res, ","))
}
