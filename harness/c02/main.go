// C02 — malformed, unsupported or tampered hash files never authenticate.
//
// Exhaustive input enumeration (DESIGN.md 4-C02): the harness writes the bytes of
// v.user / v.admin itself: (i) every string of length <= 3 over a separator alphabet,
// (ii) systematic single mutations of valid records of every parameter set (truncation at
// EVERY length, each field emptied/swapped, separators deleted/doubled, CR/LF/NUL/space at
// every field boundary, base64 re-encodings, numeric edge cases, huge lines),
// (iii) records produced by an independent implementation of the schema.
// Oracles: soundness against an independent lenient decoder + recomputation, clean
// failure (no panic), completeness for (iii), and the schema rules for unsupported files.
package main

import (
	"crypto/hmac"
	"crypto/sha256"
	"encoding/base64"
	"fmt"
	"os"
	"path/filepath"
	"regexp"
	"strconv"
	"strings"

	"golang.org/x/crypto/argon2"
	"golang.org/x/crypto/scrypt"

	"github.com/whawty/auth/internal/verifev"
	"github.com/whawty/auth/internal/verifx"
	"github.com/whawty/auth/store"
)

var ev *verifev.Run

// independent description of the cheap parameter sets (numbers repeated here on purpose)
type pspec struct {
	format  string
	t, m, l uint32
	p       uint8
	cost    uint
	r, pp   int
}

var specs = map[uint]pspec{
	1: {format: "argon2id", t: 1, m: 8, p: 1, l: 16},
	2: {format: "hmac_sha256_scrypt", cost: 1, r: 1, pp: 1},
	3: {format: "argon2id", t: 2, m: 16, p: 1, l: 32},
}

func digest(sp pspec, pw string, salt []byte) []byte {
	if sp.format == "argon2id" {
		return argon2.IDKey([]byte(pw), salt, sp.t, sp.m, sp.p, sp.l)
	}
	k, err := scrypt.Key([]byte(pw), salt, 1<<sp.cost, sp.r, sp.pp, 32)
	if err != nil {
		return nil
	}
	key, _ := base64.StdEncoding.DecodeString(verifx.HmacKeyB64)
	h := hmac.New(sha256.New, key)
	h.Write(k)
	return h.Sum(nil)
}

func lenientB64(s string) []byte {
	s = strings.Map(func(r rune) rune {
		if r == '\r' || r == '\n' || r == ' ' || r == '\t' {
			return -1
		}
		return r
	}, s)
	for _, enc := range []*base64.Encoding{base64.URLEncoding, base64.RawURLEncoding, base64.StdEncoding, base64.RawStdEncoding} {
		if b, err := enc.DecodeString(s); err == nil {
			return b
		}
	}
	return nil
}

type decoded struct {
	ok           bool
	format       string
	pid          uint64
	salt, digest []byte
}

// lenientDecode: the most generous reading of "first line is a record".
func lenientDecode(content string) decoded {
	line, _, _ := strings.Cut(content, "\n")
	line = strings.TrimRight(line, "\r")
	f := strings.Split(line, ":")
	if len(f) != 5 {
		return decoded{}
	}
	if _, err := strconv.ParseInt(strings.TrimSpace(f[1]), 10, 64); err != nil {
		return decoded{}
	}
	pid, err := strconv.ParseUint(strings.TrimSpace(f[2]), 10, 64)
	if err != nil {
		return decoded{}
	}
	salt, dig := lenientB64(f[3]), lenientB64(f[4])
	if salt == nil || dig == nil || len(salt) == 0 || len(dig) == 0 {
		return decoded{}
	}
	return decoded{ok: true, format: f[0], pid: pid, salt: salt, digest: dig}
}

var strictRe = regexp.MustCompile(`^(argon2id|hmac_sha256_scrypt):[0-9]{1,18}:[0-9]{1,9}:[A-Za-z0-9_-]+={0,2}:[A-Za-z0-9_-]+={0,2}(\n[^\x00]*)?$`)

// classify: "valid" (must be supported), "invalid" (must be unsupported) or "grey".
func classify(content string, cfg map[uint]pspec) string {
	d := lenientDecode(content)
	sp, known := cfg[uint(d.pid)]
	if !d.ok || !known || sp.format != d.format || d.pid > 1<<31 {
		return "invalid"
	}
	if strictRe.MatchString(content) {
		line, _, _ := strings.Cut(content, "\n")
		f := strings.Split(line, ":")
		s, e1 := base64.URLEncoding.DecodeString(f[3])
		g, e2 := base64.URLEncoding.DecodeString(f[4])
		if e1 == nil && e2 == nil && len(s) > 0 && len(g) > 0 {
			return "valid"
		}
	}
	return "grey"
}

func legit(content, pw string, cfg map[uint]pspec) bool {
	d := lenientDecode(content)
	if !d.ok {
		return false
	}
	sp, known := cfg[uint(d.pid)]
	if !known || sp.format != d.format {
		return false
	}
	want := digest(sp, pw, d.salt)
	return want != nil && hmac.Equal(want, d.digest)
}

type cas struct {
	kind    string
	content string
	isDir   bool
	pw      string // the password the base record was made for ("" for class i)
}

func record(set uint, pw string, salt []byte, ts int64) string {
	sp := specs[set]
	return fmt.Sprintf("%s:%d:%d:%s:%s", sp.format, ts, set, base64.URLEncoding.EncodeToString(salt), base64.URLEncoding.EncodeToString(digest(sp, pw, salt)))
}

func gen(thorough bool) []cas {
	var out []cas
	// (i) every short string over the separator alphabet
	alpha := []byte{':', '\n', '1', 'a', '='}
	out = append(out, cas{kind: "short", content: ""})
	var rec func(prefix []byte, n int)
	rec = func(prefix []byte, n int) {
		if n == 0 {
			return
		}
		for _, c := range alpha {
			p := append(append([]byte{}, prefix...), c)
			out = append(out, cas{kind: "short", content: string(p)})
			rec(p, n-1)
		}
	}
	rec(nil, 3)
	pw := "sec:ret\npw"
	for _, set := range []uint{1, 2, 3} {
		saltLen := 16
		if set == 2 {
			saltLen = 32
		}
		salt := make([]byte, saltLen)
		for i := range salt {
			salt[i] = byte(0xf8 + i*37) // makes '-' and '_' appear in the URL-safe encoding
		}
		base := record(set, pw, salt, 1700000000)
		f := strings.Split(base, ":")
		join := func(g []string) string { return strings.Join(g, ":") + "\n" }
		add := func(kind, c string) {
			out = append(out, cas{kind: fmt.Sprintf("set%d:%s", set, kind), content: c, pw: pw})
		}
		// (iii) independent-implementation records, with and without trailing newline, with aux data
		add("independent", base+"\n")
		add("independent-nonl", base)
		add("independent-aux", base+"\naux: data\nmore\n")
		add("independent-emptypw", record(set, "", salt, 0)+"\n")
		// (ii) mutations
		for i := range f {
			g := append([]string{}, f...)
			g[i] = ""
			add(fmt.Sprintf("field%d-empty", i), join(g))
			for j := i + 1; j < len(f); j++ {
				g := append([]string{}, f...)
				g[i], g[j] = g[j], g[i]
				add(fmt.Sprintf("swap%d-%d", i, j), join(g))
			}
			g = append([]string{}, f...)
			g = append(g[:i], g[i+1:]...)
			add(fmt.Sprintf("field%d-deleted", i), join(g))
		}
		full := base + "\n"
		for n := 0; n < len(full); n++ {
			add("truncate", full[:n])
		}
		// separators deleted / doubled, junk at each field boundary
		pos := 0
		for i := 0; i < 4; i++ {
			pos += len(f[i])
			add("sep-deleted", full[:pos]+full[pos+1:])
			add("sep-doubled", full[:pos]+":"+full[pos:])
			for _, junk := range []string{"\r\n", "\x00", " ", "\n", "\t"} {
				add("junk-before-sep", full[:pos]+junk+full[pos:])
				add("junk-after-sep", full[:pos+1]+junk+full[pos+1:])
			}
			pos++
		}
		for _, junk := range []string{"\r", "\x00", " ", "=", "A", "===="} {
			add("junk-at-end", base+junk+"\n")
			add("junk-at-start", junk+base+"\n")
		}
		// base64 quantum changes and re-encodings
		for _, fi := range []int{3, 4} {
			g := append([]string{}, f...)
			g[fi] = f[fi][:len(f[fi])-4]
			add(fmt.Sprintf("field%d-minus-quantum", fi), join(g))
			g[fi] = f[fi] + "AAAA"
			add(fmt.Sprintf("field%d-plus-quantum", fi), join(g))
			g[fi] = strings.TrimRight(f[fi], "=")
			add(fmt.Sprintf("field%d-unpadded", fi), join(g))
			g[fi] = strings.NewReplacer("-", "+", "_", "/").Replace(f[fi])
			add(fmt.Sprintf("field%d-stdalphabet", fi), join(g))
			g[fi] = f[fi][:1]
			add(fmt.Sprintf("field%d-onechar", fi), join(g))
			g[fi] = "===="
			add(fmt.Sprintf("field%d-padding-only", fi), join(g))
			// flip one bit of the decoded bytes at every position (quick: first/last)
			raw, _ := base64.URLEncoding.DecodeString(f[fi])
			for bi := 0; bi < len(raw); bi++ {
				if !thorough && bi != 0 && bi != len(raw)-1 {
					continue
				}
				r2 := append([]byte{}, raw...)
				r2[bi] ^= 0x01
				g[fi] = base64.URLEncoding.EncodeToString(r2)
				add(fmt.Sprintf("field%d-bitflip", fi), join(g))
			}
		}
		// a digest that IS the schema's function of the right password, but computed for a
		// different output length than the configured one (argon2id) / from another scrypt
		// key length: the stored digest must equal the digest under the CONFIGURED parameters
		for _, ol := range []uint32{1, 2, 4, 8, 15, 17, 31, 33, 64} {
			sp := specs[set]
			var alt []byte
			if sp.format == "argon2id" {
				if ol == sp.l {
					continue
				}
				alt = argon2.IDKey([]byte(pw), salt, sp.t, sp.m, sp.p, ol)
			} else {
				if ol == 32 {
					continue
				}
				k, _ := scrypt.Key([]byte(pw), salt, 1<<sp.cost, sp.r, sp.pp, int(ol))
				key, _ := base64.StdEncoding.DecodeString(verifx.HmacKeyB64)
				hm := hmac.New(sha256.New, key)
				hm.Write(k)
				alt = hm.Sum(nil)
			}
			g := append([]string{}, f...)
			g[4] = base64.URLEncoding.EncodeToString(alt)
			add(fmt.Sprintf("digest-of-other-length-%d", ol), join(g))
			// and with other cost parameters (a digest under another parameter set's numbers)
		}
		for other, osp := range specs {
			if other != set && osp.format == specs[set].format {
				g := append([]string{}, f...)
				g[4] = base64.URLEncoding.EncodeToString(digest(osp, pw, salt))
				add(fmt.Sprintf("digest-under-params-of-set-%d", other), join(g))
			}
		}
		// digest of the right length but all zero / digest equal to salt
		g := append([]string{}, f...)
		raw, _ := base64.URLEncoding.DecodeString(f[4])
		g[4] = base64.URLEncoding.EncodeToString(make([]byte, len(raw)))
		add("digest-zero", join(g))
		// algorithm ids
		for _, a := range []string{"argon2id", "hmac_sha256_scrypt", "argon2i", "ARGON2ID", "argon2id ", " argon2id", "scrypt", "plain"} {
			g := append([]string{}, f...)
			g[0] = a
			add("algo-"+strings.TrimSpace(a), join(g))
		}
		// parameter-set ids and timestamps
		for _, id := range []string{"1", "2", "3", "9", "0", "-1", "+1", "0x1", "01", "1 ", " 1", "4294967297", "18446744073709551617", "18446744073709551615", "1.0", "1e0", "١"} {
			g := append([]string{}, f...)
			g[2] = id
			add("paramid-"+id, join(g))
		}
		for _, ts := range []string{"0", "-1", "+5", "0x10", "9223372036854775807", "9223372036854775808", "1e3", " 5", "5 ", "1700000000.5"} {
			g := append([]string{}, f...)
			g[1] = ts
			add("timestamp-"+ts, join(g))
		}
		add("garbage-lines-after", base+"\n\x00\xff\n:::::\n")
		add("record-on-second-line", "\n"+base+"\n")
		add("crlf", base+"\r\n")
		add("bom", "\xef\xbb\xbf"+base+"\n")
		if thorough {
			add("huge-first-line", strings.Repeat("a", 1<<20)+base+"\n")
			add("huge-digest", strings.Join(f[:4], ":")+":"+strings.Repeat("QUFB", 1<<18)+"\n")
			add("huge-many-colons", strings.Repeat(":", 1<<20))
		}
	}
	// (iii, continued) independent records for scrypt parameter sets that configure only one of
	// r / p (the other one is the algorithm's default: r=8, p=1), all labelled with id 2
	for _, sp := range extraScrypt {
		salt := make([]byte, 32)
		for i := range salt {
			salt[i] = byte(0x11 + i*29)
		}
		rec := fmt.Sprintf("%s:%d:%d:%s:%s", sp.format, 1700000001, 2, base64.URLEncoding.EncodeToString(salt), base64.URLEncoding.EncodeToString(digest(sp, pw, salt)))
		out = append(out, cas{kind: fmt.Sprintf("set2:independent-scrypt(r=%d,p=%d)", sp.r, sp.pp), content: rec + "\n", pw: pw})
	}
	out = append(out, cas{kind: "directory-instead-of-file", isDir: true})
	return out
}

// what a configuration entry {cost: 1, r: 4}, {cost: 1, p: 2}, {cost: 1} and {cost: 1, r: 4, p: 2} means
var extraScrypt = []pspec{
	{format: "hmac_sha256_scrypt", cost: 1, r: 4, pp: 1},
	{format: "hmac_sha256_scrypt", cost: 1, r: 8, pp: 2},
	{format: "hmac_sha256_scrypt", cost: 1, r: 8, pp: 1},
	{format: "hmac_sha256_scrypt", cost: 1, r: 4, pp: 2},
}

type config struct {
	name string
	cfg  map[uint]pspec
	mk   func(base string) *store.Dir
}

func configs() []config {
	all := func(base string) *store.Dir { return verifx.CheapDir(base, 1) }
	return []config{
		{"all-sets", specs, all},
		{"only-set-3", map[uint]pspec{3: specs[3]}, func(base string) *store.Dir {
			d := all(base)
			delete(d.Params, 1)
			delete(d.Params, 2)
			d.Default = 3
			return d
		}},
		{"ids-permuted", map[uint]pspec{1: specs[2], 2: specs[3], 3: specs[1]}, func(base string) *store.Dir {
			d := all(base)
			d.Params[1], d.Params[2], d.Params[3] = d.Params[2], d.Params[3], d.Params[1]
			return d
		}},
		scryptCfg("scrypt-only-r", extraScrypt[0], 4, 0),
		scryptCfg("scrypt-only-p", extraScrypt[1], 0, 2),
		scryptCfg("scrypt-neither", extraScrypt[2], 0, 0),
		scryptCfg("scrypt-r-and-p", extraScrypt[3], 4, 2),
	}
}

// scryptCfg: set 2 configured with the given r / p entries (0 = not given), as the YAML loader does
func scryptCfg(name string, means pspec, r, p int) config {
	return config{name, map[uint]pspec{1: specs[1], 2: means, 3: specs[3]}, func(base string) *store.Dir {
		d := verifx.CheapDir(base, 1)
		h, err := store.NewScryptAuthHasher(&store.ScryptAuthParams{HmacKeyBase64: verifx.HmacKeyB64, Cost: 1, R: r, P: p})
		if err != nil {
			panic(err)
		}
		d.Params[2] = h
		return d
	}}
}

func main() {
	ev = verifev.New("C02", "inputs")
	cases := gen(ev.Thorough())
	cfgs := configs()
	ev.Rule = "every string of length <=3 over {':','\\n','1','a','='}; every listed single mutation of a valid record of each of 3 parameter sets incl. truncation at every byte length; independent-implementation records; independent scrypt records for r/p given partially; each under 7 configurations (all sets / set absent / ids mapped to other algorithms / scrypt set with only r, only p, neither, both) and both extensions; distinct = distinct (configuration, content class, observed behaviour vector)"
	ev.Assumptions = []string{"record validity is judged by an independent lenient decoder and an independent recomputation of the digest with x/crypto primitives", "grey-zone contents (decodable only leniently) are checked for soundness only, not for the supported/unsupported schema rules"}
	type job struct {
		c   cas
		cf  config
		ext string
	}
	var jobs []job
	for _, cf := range cfgs {
		for _, c := range cases {
			jobs = append(jobs, job{c, cf, ".user"})
			if strings.Contains(c.kind, "independent") || c.kind == "short" || strings.Contains(c.kind, "field4") {
				jobs = append(jobs, job{c, cf, ".admin"})
			}
		}
	}
	dirs := make([]string, verifx.NCPU())
	for i := range dirs {
		dirs[i] = verifx.Scratch("c02")
		defer os.RemoveAll(dirs[i])
	}
	verifx.Parallel(len(jobs), func(w, i int) {
		j := jobs[i]
		runCase(filepath.Join(dirs[w], "s"), j.c, j.cf, j.ext, i%701 == 3)
	})
	ev.Finish()
}

func safely(f func()) (panicked any) {
	defer func() { panicked = recover() }()
	f()
	return nil
}

func runCase(dir string, c cas, cf config, ext string, sample bool) {
	os.RemoveAll(dir)
	os.MkdirAll(dir, 0700) //nolint:errcheck
	// a healthy admin so that Check has something to accept
	helper := verifx.CheapDir(dir, 1)
	if err := helper.AddUser("root", "rootpw", true); err != nil {
		fmt.Fprintln(os.Stderr, "setup failed:", err)
		os.Exit(2)
	}
	file := filepath.Join(dir, "v"+ext)
	if c.isDir {
		os.Mkdir(file, 0700) //nolint:errcheck
	} else if err := os.WriteFile(file, []byte(c.content), 0600); err != nil {
		fmt.Fprintln(os.Stderr, "setup failed:", err)
		os.Exit(2)
	}
	d := cf.mk(dir)
	ev.Add("evaluations", 1)
	replay := map[string]any{"config": cf.name, "kind": c.kind, "ext": ext, "content": []byte(c.content), "content_text": verifx.Q(c.content)}
	viol := func(kind, format string, a ...any) {
		k := c.kind
		if i := strings.Index(k, ":"); i >= 0 {
			k = k[i+1:]
		}
		ev.Violation(kind+":"+k, fmt.Sprintf("[config %s, file v%s = %s (%s)] ", cf.name, ext, verifx.Q(c.content), c.kind)+fmt.Sprintf(format, a...), replay)
	}
	var behaviour []string
	// --- soundness + clean failure for a set of presented passwords
	for _, p := range []string{c.pw, "", "x", "rootpw", c.pw + "\x00"} {
		var ok bool
		var err error
		if pv := safely(func() { ok, _, _, _, err = d.Authenticate("v", p) }); pv != nil {
			viol("panic-in-authenticate", "Authenticate(v,%s) panicked: %v", verifx.Q(p), pv)
			continue
		}
		if ok && err != nil {
			viol("ok-with-error", "Authenticate ok with err %v", err)
		}
		lg := !c.isDir && legit(c.content, p, cf.cfg)
		if ok && !lg {
			viol("unsound-accept", "Authenticate(v,%s) succeeded although no configured parameter set yields the stored digest for that password", verifx.Q(p))
		}
		behaviour = append(behaviour, fmt.Sprint(ok))
	}
	class := "invalid"
	if !c.isDir {
		class = classify(c.content, cf.cfg)
	}
	// --- completeness: a strictly valid record authenticates with its password
	if class == "valid" && c.pw != "" && legit(c.content, c.pw, cf.cfg) {
		ok, _, _, _, err := d.Authenticate("v", c.pw)
		if !ok {
			viol("valid-record-refused", "a valid record does not authenticate with its password: %v", err)
		}
		ex, adm, _ := d.Exists("v")
		if !ex || adm != (ext == ".admin") {
			viol("exists", "Exists(v)=%v,%v", ex, adm)
		}
	}
	// --- schema rules
	before := verifx.Snap(dir)
	var l store.UserList
	var lf store.UserListFull
	if pv := safely(func() { l, _ = d.List(); lf, _ = d.ListFull() }); pv != nil {
		viol("panic-in-list", "List/ListFull panicked: %v", pv)
		return
	}
	_, inList := l["v"]
	fe, inFull := lf["v"]
	behaviour = append(behaviour, fmt.Sprint(inList, inFull, fe.IsSupported))
	switch class {
	case "invalid":
		if inList {
			viol("unsupported-listed", "List shows user v although its hash file is not a supported record")
		}
		if !inFull || fe.IsSupported {
			viol("unsupported-listfull", "ListFull: present=%v supported=%v, want present and unsupported", inFull, fe.IsSupported)
		}
		if pv := safely(func() {
			if err := d.AddUser("v", "newpw", false); err == nil {
				viol("add-over-unsupported", "AddUser(v) succeeded although a file for v exists")
			}
		}); pv != nil {
			viol("panic-in-add", "AddUser panicked: %v", pv)
		}
		if after := verifx.Snap(dir); !after.Equal(before) {
			viol("add-changed-store", "failed AddUser changed the store: %s", before.Diff(after))
		}
		if pv := safely(func() {
			if err := d.UpdateUser("v", "newpw"); err == nil {
				viol("update-over-unsupported", "UpdateUser(v) overwrote an unsupported hash file")
			}
		}); pv != nil {
			viol("panic-in-update", "UpdateUser panicked: %v", pv)
		}
		if after := verifx.Snap(dir); !after.Equal(before) {
			viol("update-changed-store", "refused UpdateUser changed the store: %s", before.Diff(after))
		}
		if !c.isDir {
			d.RemoveUser("v")
			if _, err := os.Lstat(file); err == nil {
				viol("remove-left-file", "RemoveUser(v) did not delete the unsupported hash file")
			}
		}
	case "valid":
		if !inList || !inFull || !fe.IsSupported || fe.IsAdmin != (ext == ".admin") {
			viol("supported-not-listed", "List present=%v ListFull present=%v supported=%v admin=%v", inList, inFull, fe.IsSupported, fe.IsAdmin)
		}
		if err := d.UpdateUser("v", "newpw"); err != nil {
			viol("update-of-supported-refused", "UpdateUser on a supported record failed: %v", err)
		} else {
			if ok, _, _, _, _ := d.Authenticate("v", "newpw"); !ok {
				viol("update-lost", "after UpdateUser the new password does not verify")
			}
			// aux lines preserved
			_, aux, _ := strings.Cut(c.content, "\n")
			nb, _ := os.ReadFile(file)
			_, naux, _ := strings.Cut(string(nb), "\n")
			if aux != naux {
				viol("aux-lost", "auxiliary lines changed by update: %q -> %q", aux, naux)
			}
		}
	}
	// Check must still pass (root is a valid admin) unless v's presence legitimately breaks it
	if pv := safely(func() { d.Check() }); pv != nil { //nolint:errcheck
		viol("panic-in-check", "Check panicked: %v", pv)
	}
	ev.Distinct(cf.name + "|" + class + "|" + strings.SplitN(c.kind, ":", 2)[len(strings.SplitN(c.kind, ":", 2))-1] + "|" + strings.Join(behaviour, ","))
	if sample {
		ev.Sample(map[string]any{"config": cf.name, "kind": c.kind, "content": verifx.Q(c.content), "class": class, "behaviour": behaviour})
	}
}
