// drv: the traced driver of the tracefs engine (DESIGN.md 2.4).  It executes a scripted
// history of store operations on one OS thread; operation boundaries are made visible in
// the system-call trace by faccessat("/MARK/<tag>") calls, and the real directory is dumped
// (to the report file, not traced content) after each step so the Python file-system
// model can be validated against the implementation.
package main

import (
	"encoding/base64"
	"encoding/json"
	"fmt"
	"os"
	"path/filepath"
	"runtime"
	"sort"
	"syscall"

	"github.com/whawty/auth/internal/verifx"
	"github.com/whawty/auth/store"
)

type step struct {
	Op      string `json:"op"`
	User    string `json:"user"`
	UserB64 string `json:"user_b64"`
	Pw      string `json:"pw"`
	Admin   bool   `json:"admin"`
	Default uint   `json:"default"`
	Base    string `json:"base"` // optional other base dir
	Tag     string `json:"tag"`
	Sync    bool   `json:"sync"` // make everything durable before this step (harness-level sync)
}

type script struct {
	Base   string `json:"base"`
	Report string `json:"report"`
	Steps  []step `json:"steps"`
	Snap   bool   `json:"snap"`
	Root   string `json:"root"` // tree to snapshot (defaults to base)
}

type result struct {
	I    int               `json:"i"`
	Op   string            `json:"op"`
	OK   bool              `json:"ok"`
	Err  string            `json:"err,omitempty"`
	Res  string            `json:"res,omitempty"`
	Snap map[string]string `json:"snap,omitempty"`
}

func mark(tag string) {
	p, _ := syscall.BytePtrFromString("/MARK/" + tag)
	syscall.Syscall6(syscall.SYS_FACCESSAT, uintptr(^uintptr(99)), uintptr(unsafePtr(p)), 0, 0, 0, 0) //nolint:errcheck
}

func init() {
	runtime.LockOSThread()
}

func main() {
	runtime.GOMAXPROCS(1)
	if len(os.Args) < 2 {
		fmt.Fprintln(os.Stderr, "usage: drv script.json")
		os.Exit(2)
	}
	b, err := os.ReadFile(os.Args[1])
	if err != nil {
		fmt.Fprintln(os.Stderr, err)
		os.Exit(2)
	}
	var sc script
	if err := json.Unmarshal(b, &sc); err != nil {
		fmt.Fprintln(os.Stderr, err)
		os.Exit(2)
	}
	var results []result
	root := sc.Root
	if root == "" {
		root = sc.Base
	}
	mark("START")
	for i, st := range sc.Steps {
		base := sc.Base
		if st.Base != "" {
			base = st.Base
		}
		def := st.Default
		if def == 0 {
			def = 1
		}
		d := verifx.CheapDir(base, def)
		user := st.User
		if st.UserB64 != "" {
			ub, _ := base64.StdEncoding.DecodeString(st.UserB64)
			user = string(ub)
		}
		if st.Sync {
			syncTree(root)
		}
		r := result{I: i, Op: st.Op}
		mark(fmt.Sprintf("B:%d", i))
		var err error
		func() {
			defer func() {
				if p := recover(); p != nil {
					err = fmt.Errorf("PANIC: %v", p)
				}
			}()
			switch st.Op {
			case "init":
				err = d.Init(user, st.Pw)
			case "add":
				err = d.AddUser(user, st.Pw, st.Admin)
			case "update":
				err = d.UpdateUser(user, st.Pw)
			case "setadmin":
				err = d.SetAdmin(user, st.Admin)
			case "remove":
				d.RemoveUser(user)
			case "auth":
				var ok, adm bool
				ok, adm, _, _, err = d.Authenticate(user, st.Pw)
				r.Res = fmt.Sprintf("%v/%v", ok, adm)
				if ok {
					err = nil
				}
			case "exists":
				var ex, adm bool
				ex, adm, err = d.Exists(user)
				r.Res = fmt.Sprintf("%v/%v", ex, adm)
			case "list":
				var l store.UserList
				l, err = d.List()
				var ks []string
				for k := range l {
					ks = append(ks, k)
				}
				sort.Strings(ks)
				r.Res = fmt.Sprint(ks)
			case "listfull":
				var l store.UserListFull
				l, err = d.ListFull()
				var ks []string
				for k := range l {
					ks = append(ks, k)
				}
				sort.Strings(ks)
				r.Res = fmt.Sprint(ks)
			case "check":
				err = d.Check()
			case "nop":
			default:
				err = fmt.Errorf("unknown op %q", st.Op)
			}
		}()
		okS := "ok"
		if err != nil {
			okS = "err"
			r.Err = err.Error()
		}
		r.OK = err == nil
		mark(fmt.Sprintf("E:%d:%s", i, okS))
		if sc.Snap {
			r.Snap = map[string]string{}
			for k, v := range verifx.Snap(root) {
				r.Snap[k] = base64.StdEncoding.EncodeToString([]byte(v))
			}
		}
		results = append(results, r)
	}
	mark("END")
	out, _ := json.Marshal(results)
	if sc.Report != "" {
		if err := os.WriteFile(sc.Report, out, 0600); err != nil {
			fmt.Fprintln(os.Stderr, err)
			os.Exit(2)
		}
	} else {
		fmt.Println(string(out))
	}
}

// syncTree fsyncs every file and directory below root (a harness-level "make durable").
func syncTree(root string) {
	filepath.Walk(root, func(p string, info os.FileInfo, err error) error { //nolint:errcheck
		if err != nil {
			return nil
		}
		if f, err := os.Open(p); err == nil {
			f.Sync() //nolint:errcheck
			f.Close()
		}
		return nil
	})
}
