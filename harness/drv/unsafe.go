package main

import "unsafe"

func unsafePtr(p *byte) unsafe.Pointer { return unsafe.Pointer(p) }
