// C01 — password verdict tracks the last acknowledged write, for every history.
//
// Explicit-state search (seqx, DESIGN.md 2.3/4-C01): breadth-first closure of the model
// state space {user -> absent | (password, admin, parameter set)} where every transition
// calls the real store.Dir API on a directory restored from the state's snapshot, and all
// observers (Authenticate for every user x password, Exists, List, ListFull, directory
// listing) are compared with the reference model after every transition.
// A second part sweeps near-miss passwords exhaustively per base password.
package main

import (
	"crypto/sha256"
	"fmt"
	"os"
	"path/filepath"
	"sort"
	"strings"
	"sync"
	"sync/atomic"
	"time"

	"github.com/whawty/auth/internal/verifev"
	"github.com/whawty/auth/internal/verifx"
	"github.com/whawty/auth/store"
)

type urec struct {
	pw    int // index into pws
	admin bool
	set   uint
	tlo   int64
	thi   int64
}

type model map[string]urec

func (m model) key() string {
	var ks []string
	for u, r := range m {
		ks = append(ks, fmt.Sprintf("%s=%d,%v,%d", u, r.pw, r.admin, r.set))
	}
	sort.Strings(ks)
	return strings.Join(ks, ";")
}

func (m model) clone() model {
	n := model{}
	for k, v := range m {
		n[k] = v
	}
	return n
}

type op struct {
	Kind  string `json:"op"`
	User  string `json:"user"`
	Pw    int    `json:"pw,omitempty"`
	Admin bool   `json:"admin,omitempty"`
	Def   uint   `json:"default,omitempty"`
}

func (o op) String() string {
	switch o.Kind {
	case "add":
		return fmt.Sprintf("add(%s,%s,admin=%v,default=%d)", o.User, verifx.Q(pws[o.Pw]), o.Admin, o.Def)
	case "update":
		return fmt.Sprintf("update(%s,%s,default=%d)", o.User, verifx.Q(pws[o.Pw]), o.Def)
	case "setadmin":
		return fmt.Sprintf("setadmin(%s,%v)", o.User, o.Admin)
	case "update-iofail", "add-iofail":
		return fmt.Sprintf("%s(%s) [work area unusable]", o.Kind, o.User)
	}
	return fmt.Sprintf("remove(%s)", o.User)
}

type node struct {
	m     model
	snap  verifx.Snapshot
	path  []op
	depth int
}

var c16mode bool

// synClock: synthetic last-changed values written into the records by the harness
var synClock int64 = 1100000000

// kinds of mismatch that concern C16 (validity of the directory along histories)
var c16kinds = map[string]bool{"check": true, "tmp-residue": true, "stale-file": true, "missing-file": true, "op-should-fail": true, "op-should-succeed": true}

var (
	users = []string{"a", "a.b"} // prefix-related on purpose: a lookup, removal or listing by name prefix/pattern confuses them
	pws   []string
	sets  []uint
	ev    *verifev.Run
)

func main() {
	as := os.Getenv("VERIF_AS")
	if as == "" {
		as = "C01"
	}
	ev = verifev.New(as, "seqx")
	c16mode = as == "C16"
	if as == "C12" {
		c16mode = true
		c16kinds = map[string]bool{"authenticate-upgradeable": true, "op-should-fail": true, "op-should-succeed": true}
	}
	if ev.Thorough() {
		pws = []string{"", "x", "xy", "X", "x\x00"}
		sets = []uint{1, 2, 3}
	} else {
		pws = []string{"", "x", "xy", "x\x00"}
		sets = []uint{1, 2}
	}
	ev.Rule = fmt.Sprintf("BFS closure of model states (per user: absent | password in %q x admin x parameter set in %v; users %v); "+
		"every operation add/update/set-admin/remove with every argument from every state against the real store.Dir on a restored snapshot; "+
		"observers Authenticate(all users x passwords), Exists, List, ListFull, Check, directory listing compared with the reference model after every transition. "+
		"distinct = distinct (model state, observation vector) pairs plus distinct near-miss cases", pws, sets, users)
	ev.Assumptions = []string{"cheap parameter sets (argon2id t1/m8/p1/l16, scrypt N=2 r1 p1, argon2id t2/m16/p1/l32) stand for all parameter sets",
		"operations are executed sequentially (serialisation by the agent is C11's subject)"}
	bfs()
	if !c16mode {
		nearMiss()
		extremeSets()
	}
	ev.Finish()
}

func allOps() []op {
	var ops []op
	for _, u := range users {
		for _, d := range sets {
			for p := range pws {
				for _, adm := range []bool{false, true} {
					ops = append(ops, op{Kind: "add", User: u, Pw: p, Admin: adm, Def: d})
				}
				ops = append(ops, op{Kind: "update", User: u, Pw: p, Def: d})
			}
		}
		ops = append(ops, op{Kind: "setadmin", User: u, Admin: true}, op{Kind: "setadmin", User: u, Admin: false}, op{Kind: "remove", User: u})
		// operations that fail for an environmental reason (the work area is unusable): they
		// are part of "any sequence of successful and failed operations" and must change nothing
		ops = append(ops, op{Kind: "update-iofail", User: u, Pw: 0, Def: sets[0]}, op{Kind: "add-iofail", User: u, Pw: 0, Def: sets[0]})
	}
	return ops
}

func bfs() {
	ops := allOps()
	root := &node{m: model{}, snap: verifx.Snapshot{}}
	seen := map[string]bool{root.m.key(): true}
	frontier := []*node{root}
	var mu sync.Mutex
	nw := verifx.NCPU()
	dirs := make([]string, nw)
	for i := range dirs {
		dirs[i] = verifx.Scratch("c01")
		defer os.RemoveAll(dirs[i])
	}
	maxDepth := 0
	ev.Add("states", 1)
	for len(frontier) > 0 {
		var next []*node
		type job struct {
			n *node
			o op
		}
		var jobs []job
		for _, n := range frontier {
			for _, o := range ops {
				jobs = append(jobs, job{n, o})
			}
		}
		verifx.Parallel(len(jobs), func(w, i int) {
			j := jobs[i]
			nn := step(filepath.Join(dirs[w], "store"), j.n, j.o)
			ev.Add("transitions", 1)
			ev.Add("evaluations", 1)
			if nn == nil {
				return
			}
			k := nn.m.key()
			mu.Lock()
			if !seen[k] {
				seen[k] = true
				next = append(next, nn)
				ev.Add("states", 1)
				if nn.depth > maxDepth {
					maxDepth = nn.depth
				}
			}
			mu.Unlock()
		})
		sort.Slice(next, func(i, j int) bool { return next[i].m.key() < next[j].m.key() })
		frontier = next
	}
	ev.Set("bfs_depth_to_closure", maxDepth)
	ev.Set("traces_validated_against_impl", ev.Get("transitions"))
}

// step applies o to the real store restored from n and compares with the model.
func step(dir string, n *node, o op) *node {
	if err := verifx.Restore(dir, n.snap); err != nil {
		fmt.Fprintln(os.Stderr, "restore failed:", err)
		os.Exit(2)
	}
	def := o.Def
	if def == 0 {
		def = sets[0]
	}
	d := verifx.CheapDir(dir, def)
	m := n.m.clone()
	before := time.Now().Unix()
	var err error
	expectErr := false
	switch o.Kind {
	case "add":
		err = d.AddUser(o.User, pws[o.Pw], o.Admin)
		if _, ok := m[o.User]; ok {
			expectErr = true
		} else {
			m[o.User] = urec{pw: o.Pw, admin: o.Admin, set: def, tlo: before}
		}
	case "update":
		err = d.UpdateUser(o.User, pws[o.Pw])
		if r, ok := m[o.User]; !ok {
			expectErr = true
		} else {
			m[o.User] = urec{pw: o.Pw, admin: r.admin, set: def, tlo: before}
		}
	case "setadmin":
		err = d.SetAdmin(o.User, o.Admin)
		if r, ok := m[o.User]; !ok {
			expectErr = true
		} else {
			r.admin = o.Admin
			m[o.User] = r
		}
	case "remove":
		d.RemoveUser(o.User)
		delete(m, o.User)
	case "update-iofail", "add-iofail":
		// replace the work area by a regular file: creating the temp file fails (also for root)
		tmp := filepath.Join(dir, ".tmp")
		os.RemoveAll(tmp)
		os.WriteFile(tmp, []byte("not a directory"), 0600) //nolint:errcheck
		if o.Kind == "update-iofail" {
			err = d.UpdateUser(o.User, pws[o.Pw])
		} else {
			err = d.AddUser(o.User, pws[o.Pw], false)
		}
		os.Remove(tmp)
		os.Mkdir(tmp, 0700) //nolint:errcheck
		expectErr = true
	}
	after := time.Now().Unix()
	path := append(append([]op{}, n.path...), o)
	fail := func(kind, format string, a ...any) {
		if c16mode && !c16kinds[kind] {
			return
		}
		desc := fmt.Sprintf(format, a...)
		var ps []string
		for _, x := range path {
			ps = append(ps, x.String())
		}
		ev.Violation("seq:"+kind+":"+o.Kind, desc+" after history "+strings.Join(ps, " ; "), map[string]any{"history": path, "passwords": pws})
	}
	if o.Kind == "add" || o.Kind == "update" {
		if r, ok := m[o.User]; ok && !expectErr && err == nil {
			// the record carries the time of the write ...
			ext := ".user"
			if r.admin {
				ext = ".admin"
			}
			fn := filepath.Join(dir, o.User+ext)
			if b, rerr := os.ReadFile(fn); rerr == nil {
				f := strings.SplitN(string(b), ":", 3)
				ts := int64(-1)
				if len(f) == 3 {
					fmt.Sscan(f[1], &ts)
				}
				if ts < before || ts > after {
					fail("record-timestamp", "record written at [%d,%d] carries timestamp %d", before, after, ts)
				}
				// ... and from now on a synthetic, unique one (the timestamp is not covered by the digest),
				// so that "last changed" reported by authenticate / list is provably the RECORD's time
				syn := atomic.AddInt64(&synClock, 1)
				if len(f) == 3 {
					os.WriteFile(fn, []byte(f[0]+":"+fmt.Sprint(syn)+":"+f[2]), 0600) //nolint:errcheck
				}
				r.tlo, r.thi = syn, syn
			}
			m[o.User] = r
		}
	}
	if expectErr && err == nil {
		fail("op-should-fail", "%v succeeded but the model says it must fail", o)
	}
	if !expectErr && err != nil {
		fail("op-should-succeed", "%v failed: %v", o, err)
		return nil
	}
	// observers: run under the op's default and under every other default (the verdict
	// must not depend on the configured default; only `upgradeable` does)
	obs := ""
	for _, od := range sets {
		obs += observe(verifx.CheapDir(dir, od), m, fail)
	}
	ev.Distinct(m.key() + "|" + obs)
	if len(path) <= 3 && ev.Get("transitions")%997 == 0 {
		ev.Sample(map[string]any{"history": fmt.Sprint(path), "model_state": m.key()})
	}
	return &node{m: m, snap: verifx.Snap(dir), path: path, depth: n.depth + 1}
}

func observe(d *store.Dir, m model, fail func(kind, format string, a ...any)) string {
	var sb strings.Builder
	// "c" never exists; "A"/"B" are case variants of existing names (a store must not fold case)
	all := append(append([]string{}, users...), "c", "A", "B", "a ", "a.user", "a.", "a.b.c", "b")
	for _, u := range all {
		r, present := m[u]
		ex, adm, err := d.Exists(u)
		if u == "a " && err != nil {
			err = nil // a name outside the grammar may be refused with an error (C03); it must not exist
		}
		if err != nil || ex != present || (present && adm != r.admin) {
			fail("exists", "Exists(%s) = %v,%v,%v; model present=%v admin=%v", u, ex, adm, err, present, r.admin)
		}
		for pi, p := range pws {
			ok, isAdmin, upg, lc, err := d.Authenticate(u, p)
			want := present && verifx.PwKey(r.set, p) == verifx.PwKey(r.set, pws[r.pw])
			fmt.Fprintf(&sb, "%s/%d=%v;", u, pi, ok)
			if ok != want {
				fail(fmt.Sprintf("authenticate-want-%v", want), "Authenticate(%s,%s)=%v (err %v), model says %v (state %s)", u, verifx.Q(p), ok, err, want, m.key())
				continue
			}
			if ok && err != nil {
				fail("authenticate-ok-with-error", "Authenticate(%s,%s) ok but err=%v", u, verifx.Q(p), err)
			}
			if ok {
				if isAdmin != r.admin {
					fail("authenticate-admin-flag", "Authenticate(%s) admin=%v, model %v", u, isAdmin, r.admin)
				}
				if upg != (r.set != d.Default) {
					fail("authenticate-upgradeable", "Authenticate(%s) upgradeable=%v, record set %d, default %d", u, upg, r.set, d.Default)
				}
				if lc.Unix() < r.tlo || lc.Unix() > r.thi {
					fail("authenticate-lastchange", "Authenticate(%s) lastchange=%d outside the write bracket [%d,%d]", u, lc.Unix(), r.tlo, r.thi)
				}
			}
		}
	}
	l, err := d.List()
	if err != nil {
		fail("list-error", "List: %v", err)
	}
	lf, err := d.ListFull()
	if err != nil {
		fail("listfull-error", "ListFull: %v", err)
	}
	if len(l) != len(m) || len(lf) != len(m) {
		fail("list-size", "List has %d / ListFull %d entries, model %d (%s)", len(l), len(lf), len(m), m.key())
	}
	for u, r := range m {
		e, ok := l[u]
		if !ok || e.IsAdmin != r.admin || e.LastChanged.Unix() < r.tlo || e.LastChanged.Unix() > r.thi {
			fail("list-entry", "List[%s]=%+v present=%v; model %+v", u, e, ok, r)
		}
		f, ok := lf[u]
		if !ok || f.IsAdmin != r.admin || !f.IsValid || !f.IsSupported || f.ParamID != r.set || f.FormatID != verifx.FormatOfSet(r.set) ||
			f.LastChanged.Unix() < r.tlo || f.LastChanged.Unix() > r.thi {
			fail("listfull-entry", "ListFull[%s]=%+v present=%v; model %+v", u, f, ok, r)
		}
	}
	hasAdmin := false
	for _, r := range m {
		hasAdmin = hasAdmin || r.admin
	}
	if cerr := d.Check(); (cerr == nil) != hasAdmin {
		fail("check", "Check()=%v but model has admin=%v (%s)", cerr, hasAdmin, m.key())
	}
	// directory content: exactly one file per user with the right extension, .tmp empty
	ents, _ := os.ReadDir(d.BaseDir)
	want := map[string]bool{}
	for u, r := range m {
		if r.admin {
			want[u+".admin"] = true
		} else {
			want[u+".user"] = true
		}
	}
	for _, e := range ents {
		if e.Name() == ".tmp" {
			sub, _ := os.ReadDir(filepath.Join(d.BaseDir, ".tmp"))
			if len(sub) != 0 {
				fail("tmp-residue", ".tmp not empty after completed operation: %d entries", len(sub))
			}
			continue
		}
		if !want[e.Name()] {
			fail("stale-file", "unexpected file %s in store (model %s)", e.Name(), m.key())
		}
		delete(want, e.Name())
	}
	for n := range want {
		fail("missing-file", "file %s missing (model %s)", n, m.key())
	}
	return sb.String()
}

// nearMiss: for each base password and parameter set: every proper prefix, every single
// deletion, every single case flip, extensions by one byte (front and back), another
// user's password must fail; the schema-inherent equivalents for scrypt must succeed.
func nearMiss() {
	mk := func(n int) string {
		b := make([]byte, n)
		for i := range b {
			b[i] = byte('a' + (i*7+i/13)%26)
		}
		return string(b)
	}
	// (lengths around every plausible internal buffer / block boundary)
	bases := []string{"secret", "Pa:ss\nwd", "\xff\xfe\x00z", strings.Repeat("0123456789", 7), mk(130), mk(300), mk(1100)}
	if ev.Thorough() {
		b := make([]byte, 5000)
		for i := range b {
			b[i] = byte('a' + i*7%23)
		}
		bases = append(bases, string(b), " lead and trail ", "ünï©ode")
	}
	type cas struct {
		base string
		set  uint
	}
	var cases []cas
	for _, b := range bases {
		for _, s := range []uint{1, 2, 3} {
			cases = append(cases, cas{b, s})
		}
	}
	verifx.Parallel(len(cases), func(w, i int) {
		c := cases[i]
		dir := verifx.Scratch("c01nm")
		defer os.RemoveAll(dir)
		d := verifx.CheapDir(dir, c.set)
		if err := d.AddUser("u", c.base, false); err != nil {
			ev.Violation("nearmiss:add-failed", fmt.Sprintf("AddUser(u,%s) set %d: %v", verifx.Q(c.base), c.set, err), nil)
			return
		}
		other := "other-" + c.base
		if err := d.AddUser("v", other, true); err != nil {
			ev.Violation("nearmiss:add-failed", err.Error(), nil)
			return
		}
		cand := map[string]string{}
		b := c.base
		stride := 1
		if len(b) > 200 {
			stride = 97 // long password: every length is still covered near both ends
		}
		for n := 0; n < len(b); n++ {
			nearBoundary := false
			for _, bd := range []int{64, 72, 128, 255, 256, 257, 512, 1024, 2048, 4096} {
				if n >= bd-2 && n <= bd+2 {
					nearBoundary = true
				}
			}
			if stride == 1 || n < 70 || n > len(b)-70 || n%stride == 0 || nearBoundary {
				cand[b[:n]] = fmt.Sprintf("prefix[%d]", n)
				cand[b[:n]+b[n+1:]] = fmt.Sprintf("delete[%d]", n)
				cand[b[n:]] = fmt.Sprintf("suffix[%d]", n)
				ch := b[n]
				if ch >= 'a' && ch <= 'z' || ch >= 'A' && ch <= 'Z' {
					cand[b[:n]+string(ch^0x20)+b[n+1:]] = fmt.Sprintf("caseflip[%d]", n)
				}
				cand[b[:n]+string(ch^0x01)+b[n+1:]] = fmt.Sprintf("bitflip[%d]", n)
			}
		}
		for _, x := range []string{"\x00", " ", "\n", "a", "\t", "\r\n"} {
			cand[b+x] = "append " + verifx.Q(x)
			cand[x+b] = "prepend " + verifx.Q(x)
		}
		cand[strings.ToUpper(b)] = "upper"
		cand[strings.ToLower(b)] = "lower"
		cand[strings.TrimSpace(b)] = "trimspace"
		cand[other] = "other user's password"
		cand[b+b] = "doubled"
		// extensions that keep a long common prefix (a key derivation that silently cuts the
		// password somewhere would accept them)
		for _, bd := range []int{8, 16, 32, 64, 72, 128, 256, 512, 1024} {
			if len(b) > bd {
				cand[b[:bd]] = fmt.Sprintf("cut[%d]", bd)
				cand[b[:bd]+"-other-tail"] = fmt.Sprintf("same-first-%d-bytes", bd)
			}
		}
		// schema-inherent equivalents (scrypt only)
		equiv := map[string]string{b: "exact"}
		if verifx.IsScryptSet(c.set) {
			if len(b)+3 <= 64 { // HMAC pads keys of at most one block with zeros
				equiv[b+"\x00"] = "trailing NUL"
				equiv[b+"\x00\x00\x00"] = "trailing NULs"
			}
			if len(b) > 64 {
				h := sha256.Sum256([]byte(b))
				equiv[string(h[:])] = "sha256 of >64-byte password"
			}
		}
		for p, why := range cand {
			wantOK := verifx.PwKey(c.set, p) == verifx.PwKey(c.set, b)
			ok, _, _, _, err := d.Authenticate("u", p)
			ev.Add("evaluations", 1)
			if ok != wantOK {
				ev.Violation("nearmiss:"+strings.SplitN(why, "[", 2)[0]+fmt.Sprintf(":want-%v", wantOK),
					fmt.Sprintf("base %s set %d: Authenticate with %s (%s) = %v (err %v), want %v", verifx.Q(b), c.set, verifx.Q(p), why, ok, err, wantOK),
					map[string]any{"base": []byte(b), "set": c.set, "presented": []byte(p), "kind": why})
			}
			ev.Distinct(fmt.Sprintf("nm|%d|%s|%s", c.set, b, p))
		}
		for p, why := range equiv {
			ok, _, _, _, err := d.Authenticate("u", p)
			ev.Add("evaluations", 1)
			if !ok {
				ev.Violation("nearmiss:equivalent-refused", fmt.Sprintf("base %s set %d: %s (%s) refused: %v", verifx.Q(b), c.set, verifx.Q(p), why, err),
					map[string]any{"base": []byte(b), "set": c.set, "presented": []byte(p)})
			}
		}
		// the other user's record is untouched by all of this
		if ok, adm, _, _, _ := d.Authenticate("v", other); !ok || !adm {
			ev.Violation("nearmiss:other-user", "user v no longer authenticates", nil)
		}
		if i == 0 {
			ev.Sample(map[string]any{"near_miss_base": c.base, "set": c.set, "candidates": len(cand)})
		}
	})
}

// extremeSets: the verdict tracks the history under unusual (but valid) parameter sets as
// well: very short and very long digests, many threads, larger scrypt parameters.
func extremeSets() {
	type ps struct {
		name string
		h    store.Hasher
		id   uint
	}
	var sets []ps
	// unusual (but valid) parameter-set ids: every id > 0 is legal, whatever its width
	for _, id := range []uint{255, 256, 257, 2024, 65535, 65536, 1<<31 - 1, 1 << 31, 1<<32 - 1} {
		sets = append(sets, ps{fmt.Sprintf("argon2id(id=%d)", id), verifx.CheapParams()[1], id})
		sets = append(sets, ps{fmt.Sprintf("scrypt(id=%d)", id), verifx.CheapParams()[2], id})
	}
	for _, l := range []uint32{4, 5, 64, 100, 512, 1000, 3000, 3036, 3037, 3072, 4096, 8192, 20000, 70000} {
		h, err := store.NewArgon2IDHasher(&store.Argon2IDParams{Time: 1, Memory: 8, Threads: 1, Length: l})
		if err == nil {
			sets = append(sets, ps{fmt.Sprintf("argon2id(length=%d)", l), h, 0})
		}
	}
	for _, th := range []uint8{4, 16, 17, 64, 255} {
		h, err := store.NewArgon2IDHasher(&store.Argon2IDParams{Time: 1, Memory: 8, Threads: th, Length: 16})
		if err == nil {
			sets = append(sets, ps{fmt.Sprintf("argon2id(threads=%d)", th), h, 0})
		}
	}
	for _, c := range [][3]int{{10, 8, 1}, {4, 16, 2}, {1, 64, 1}, {1, 1, 32}} {
		h, err := store.NewScryptAuthHasher(&store.ScryptAuthParams{HmacKeyBase64: verifx.HmacKeyB64, Cost: uint(c[0]), R: c[1], P: c[2]})
		if err == nil {
			sets = append(sets, ps{fmt.Sprintf("scrypt(cost=%d,r=%d,p=%d)", c[0], c[1], c[2]), h, 0})
		}
	}
	verifx.Parallel(len(sets), func(w, i int) {
		s := sets[i]
		dir := verifx.Scratch("c01ext")
		defer os.RemoveAll(dir)
		d := store.NewDir(dir)
		sid := s.id
		if sid == 0 {
			sid = 7
		}
		d.Params[sid] = s.h
		d.Params[1] = verifx.CheapParams()[1]
		d.Default = sid
		viol := func(kind, format string, a ...any) {
			ev.Violation("paramset:"+kind, "["+s.name+"] "+fmt.Sprintf(format, a...), map[string]any{"set": s.name})
		}
		ev.Add("evaluations", 1)
		ev.Distinct("ext|" + s.name)
		if err := d.AddUser("u", "first", true); err != nil {
			viol("add-failed", "AddUser: %v", err)
			return
		}
		expect := func(step, pw string, want bool) {
			ok, adm, upg, _, err := d.Authenticate("u", pw)
			if ok != want {
				viol("verdict", "%s: Authenticate(u,%q)=%v (err %v), want %v", step, pw, ok, err, want)
			}
			if ok && (!adm || upg) {
				viol("flags", "%s: admin=%v upgradeable=%v", step, adm, upg)
			}
		}
		expect("after add", "first", true)
		expect("after add", "firs", false)
		expect("after add", "first ", false)
		if l, err := d.List(); err != nil || len(l) != 1 {
			viol("list", "after add: List = %v, %v", l, err)
		}
		if err := d.Check(); err != nil {
			viol("check", "after add: Check: %v", err)
		}
		if err := d.UpdateUser("u", "second"); err != nil {
			viol("update-failed", "UpdateUser: %v", err)
			return
		}
		expect("after update", "second", true)
		expect("after update", "first", false)
		// written under the other set, read with this configuration
		d.Default = 1
		if err := d.UpdateUser("u", "third"); err != nil {
			viol("update-failed", "UpdateUser under the cheap default: %v", err)
		}
		d.Default = sid
		if ok, _, upg, _, _ := d.Authenticate("u", "third"); !ok || !upg {
			viol("verdict", "record of the other set: ok=%v upgradeable=%v", ok, upg)
		}
		if i == 0 {
			ev.Sample(map[string]any{"extreme_parameter_set": s.name})
		}
	})
}
