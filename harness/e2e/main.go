// e2e — the BUILT whawty-auth binary serving on real sockets (saslauthd unix socket, HTTP and
// LDAP on loopback): every credential of the alphabet through every listener, compared
// with store.Dir.Authenticate on the same directory (C04); optionally traced with strace:
// while only authentication and refused management requests are served, no mutating system
// call touches the store (C15).  Completion is observed by request/response, never by sleeps.
package main

import (
	"bytes"
	"encoding/json"
	"fmt"
	"net"
	"net/http"
	"os"
	"os/exec"
	"path/filepath"
	"strings"
	"syscall"
	"time"
	"unicode/utf8"

	"github.com/glauth/ldap"

	"github.com/whawty/auth/internal/verifev"
	"github.com/whawty/auth/internal/verifx"
	"github.com/whawty/auth/sasl"
)

func freePort() string {
	l, err := net.Listen("tcp", "127.0.0.1:0")
	if err != nil {
		panic(err)
	}
	defer l.Close()
	return l.Addr().String()
}

func must(err error) {
	if err != nil {
		fmt.Fprintln(os.Stderr, "harness infrastructure error:", err)
		os.Exit(2)
	}
}

func main() {
	prop := os.Getenv("VERIF_E2E_PROP")
	if prop == "" {
		prop = "C04"
	}
	ev := verifev.New(prop, "e2e")
	bin := os.Getenv("VERIF_AGENT_BIN")
	if bin == "" {
		must(fmt.Errorf("VERIF_AGENT_BIN not set"))
	}
	root := verifx.Scratch("e2e")
	defer os.RemoveAll(root)
	dir := filepath.Join(root, "store")
	must(os.MkdirAll(dir, 0700))
	lib := verifx.CheapDir(dir, 1)
	type cred struct{ name, pw string }
	users := []cred{{"root", "rootpw"}, {"bob", "secret"}, {"colon", "a:b"}, {"uni", "pässwörd𝄞"}, {"p256", strings.Repeat("y", 256)}, {"p257", strings.Repeat("z", 257)},
		{"esc", "q\"\\/\bé "}, {"sp", " lead and trail "}, {"al@x.org", "alpw"}, {"al", "other"}, {"nul", "pw\x00x"}}
	for _, u := range users {
		must(lib.AddUser(u.name, u.pw, u.name == "root"))
	}
	must(os.WriteFile(filepath.Join(dir, "dora.user"), []byte("argon2id:1:77:AAAA:AAAA\n"), 0600))
	cf := filepath.Join(root, "store.yaml")
	must(os.WriteFile(cf, []byte(verifx.CheapConfigYAML(dir, 1)), 0600))
	sock := filepath.Join(root, "auth.sock")
	httpAddr, ldapAddr := freePort(), freePort()
	lc := filepath.Join(root, "listener.yaml")
	must(os.WriteFile(lc, []byte(fmt.Sprintf("saslauthd:\n  listen:\n  - %s\nhttp:\n  listen:\n  - %s\nldap:\n  listen:\n  - %s\n", sock, httpAddr, ldapAddr)), 0600))
	args := []string{"--store", cf, "run", "--listener", lc}
	trace := filepath.Join(root, "trace.txt")
	var cmd *exec.Cmd
	if os.Getenv("VERIF_E2E_TRACE") != "" {
		cmd = exec.Command("strace", append([]string{"-f", "-o", trace, "-e", "trace=openat,open,creat,rename,renameat,renameat2,unlink,unlinkat,mkdir,mkdirat,rmdir,link,linkat,symlink,symlinkat,truncate,ftruncate,chmod,fchmodat,write,pwrite64", "-y", bin}, args...)...)
	} else {
		cmd = exec.Command(bin, args...)
	}
	cmd.Env = nil
	for _, e := range os.Environ() {
		if !strings.HasPrefix(e, "WHAWTY_AUTH_") {
			cmd.Env = append(cmd.Env, e)
		}
	}
	// own process group: the agent (and strace, if tracing) are stopped together
	cmd.SysProcAttr = &syscall.SysProcAttr{Setpgid: true}
	must(cmd.Start())
	stopped := false
	stop := func() {
		if !stopped {
			stopped = true
			syscall.Kill(-cmd.Process.Pid, syscall.SIGTERM) //nolint:errcheck
			done := make(chan struct{})
			go func() { cmd.Wait(); close(done) }() //nolint:errcheck
			select {
			case <-done:
			case <-time.After(10 * time.Second):
				syscall.Kill(-cmd.Process.Pid, syscall.SIGKILL) //nolint:errcheck
				<-done
			}
		}
	}
	defer stop()
	// wait until all three listeners answer (bounded polling of connection attempts)
	for i := 0; ; i++ {
		c1, e1 := net.Dial("unix", sock)
		c2, e2 := net.Dial("tcp", httpAddr)
		c3, e3 := net.Dial("tcp", ldapAddr)
		for _, c := range []net.Conn{c1, c2, c3} {
			if c != nil {
				c.Close()
			}
		}
		if e1 == nil && e2 == nil && e3 == nil {
			break
		}
		if i > 20000 {
			must(fmt.Errorf("listeners did not come up: %v %v %v", e1, e2, e3))
		}
		time.Sleep(2 * time.Millisecond)
	}
	before := verifx.Snap(dir)
	names := []string{"bob", "Bob", "nob", "root", "colon", "uni", "p256", "p257", "esc", "sp", "al@x.org", "al", "al@x.org@corp", "bob@realm", "dora", "nul", "../store/bob"}
	var pws []string
	for _, u := range users {
		pws = append(pws, u.pw)
	}
	pws = append(pws, "wrong", "secret ", "SECRET", strings.Repeat("y", 255))
	cl := sasl.NewClient(sock)
	hc := &http.Client{}
	n := 0
	for _, name := range names {
		for _, pw := range pws {
			ref := func(nm string) bool { ok, _, _, _, _ := lib.Authenticate(nm, pw); return ok }
			check := func(fe string, got, want bool) {
				n++
				ev.Add("evaluations", 1)
				ev.Distinct(fmt.Sprintf("%s|%s|%v", fe, name, got))
				if got != want {
					ev.Violation("e2e-verdict-differs:"+fe, fmt.Sprintf("built binary, listener %s, user %s, password %s: listener says %v, store says %v", fe, verifx.Q(name), verifx.Q(pw), got, want),
						map[string]any{"listener": fe, "user": name, "password": []byte(pw)})
				}
			}
			if len(name) <= 256 && len(pw) <= 256 && name != "" && pw != "" {
				ok, _, err := cl.Auth(name, pw, "imap", "")
				if err != nil {
					ev.Violation("e2e-transport-error:sasl", fmt.Sprintf("sasl client error for %s: %v", verifx.Q(name), err), nil)
				}
				check("saslauthd", ok, ref(name))
			}
			if !strings.Contains(name, ":") {
				req, _ := http.NewRequest("GET", "http://"+httpAddr+"/basic-auth", nil)
				req.SetBasicAuth(name, pw)
				if resp, err := hc.Do(req); err == nil {
					resp.Body.Close()
					check("http-basic-auth", resp.StatusCode == 200, ref(name))
				} else {
					ev.Violation("e2e-transport-error:http", err.Error(), nil)
				}
			}
			if utf8.ValidString(name) && utf8.ValidString(pw) {
				b, _ := json.Marshal(map[string]string{"username": name, "password": pw})
				if resp, err := hc.Post("http://"+httpAddr+"/api/authenticate", "application/json", bytes.NewReader(b)); err == nil {
					resp.Body.Close()
					check("http-api-authenticate", resp.StatusCode == 200, ref(name))
				}
				// a refused management request (no valid session)
				b, _ = json.Marshal(map[string]any{"session": "AAAA:AAAA", "username": name, "password": pw, "newpassword": pw, "admin": true})
				for _, ep := range []string{"add", "remove", "update", "set-admin", "list"} {
					if resp, err := hc.Post("http://"+httpAddr+"/api/"+ep, "application/json", bytes.NewReader(b)); err == nil {
						resp.Body.Close()
						if resp.StatusCode == 200 {
							ev.Violation("e2e-management-without-session:"+ep, fmt.Sprintf("/api/%s with a garbage session succeeded", ep), nil)
						}
					}
				}
			}
			if !strings.ContainsAny(name, "\x00") && !strings.ContainsAny(pw, "\x00") {
				l, err := ldap.DialTimeout("tcp", ldapAddr, 5*time.Second)
				if err != nil {
					ev.Violation("e2e-transport-error:ldap", err.Error(), nil)
				} else {
					err = l.Bind(name, pw)
					l.Close()
					cut, _, _ := strings.Cut(name, "@")
					check("ldap-bind", err == nil, ref(cut) && pw != "")
				}
			}
		}
	}
	if after := verifx.Snap(dir); !after.Equal(before) {
		ev.Violation("e2e-store-changed", "the store changed while only authentication and refused management requests were served: "+before.Diff(after), nil)
	}
	// the agent is still responsive
	if ok, _, err := cl.Auth("bob", "secret", "", ""); !ok || err != nil {
		ev.Violation("e2e-agent-unresponsive", fmt.Sprintf("final probe failed: %v %v", ok, err), nil)
	}
	stop()
	if os.Getenv("VERIF_E2E_TRACE") != "" {
		b, _ := os.ReadFile(trace)
		nm := 0
		for _, line := range strings.Split(string(b), "\n") {
			if !strings.Contains(line, dir) {
				continue
			}
			mut := strings.Contains(line, "O_CREAT") || strings.Contains(line, "O_WRONLY") || strings.Contains(line, "O_RDWR") || strings.Contains(line, "O_TRUNC") ||
				strings.Contains(line, "rename") || strings.Contains(line, "unlink") || strings.Contains(line, "mkdir") || strings.Contains(line, "rmdir") || strings.Contains(line, "link") || strings.Contains(line, "truncate") || strings.Contains(line, "chmod")
			if strings.Contains(line, " write(") || strings.Contains(line, " pwrite64(") {
				mut = strings.Contains(line, "<"+dir)
			}
			if mut && !strings.Contains(line, "= -1 ") {
				nm++
				f := strings.Fields(line)
				ev.Violation("e2e-mutating-syscall-on-store:"+strings.SplitN(f[1], "(", 2)[0], "while serving authentication / refused requests the agent issued: "+line, nil)
			}
		}
		ev.Set("trace_lines", strings.Count(string(b), "\n"))
		ev.Set("mutating_syscalls_on_store", nm)
	}
	ev.Sample(map[string]any{"listeners": "saslauthd unix socket, http, ldap (loopback)", "names": len(names), "passwords": len(pws), "requests": n})
	ev.Rule = fmt.Sprintf("built binary `run` with saslauthd + HTTP + LDAP listeners: %d user names x %d passwords through saslauthd (bundled client), basic-auth, /api/authenticate, LDAP simple bind (glauth client, real BER), plus refused management requests; reference = store.Dir.Authenticate; store snapshot (and, traced, the system calls) show no mutation", len(names), len(pws))
	ev.Finish()
}
