// C16 — the store directory stays valid; the consistency check is exact.
//
// (a) Exhaustive enumeration of directory contents (all subsets up to a size bound of a
//
//	menu of entries built from valid names) against a reference predicate for Check and
//	Init; (b) the built binary on invalid directories (exit status 3, nothing changed,
//	unless checking is disabled).  Operation histories are covered by the C01 search,
//	which this check re-runs in C16 mode (see registry).
package main

import (
	"fmt"
	"os"
	"os/exec"
	"path/filepath"
	"sort"
	"strings"

	"github.com/whawty/auth/internal/verifev"
	"github.com/whawty/auth/internal/verifx"
)

var ev *verifev.Run

type entry struct {
	file    string // file name
	kind    string // supported | unsupported | empty | dir | tmpdir | tmpdir-nonempty
	user    string
	ext     string
	content string
}

func menu(valid map[string]string) []entry {
	var m []entry
	for _, u := range []string{"a", "b", "a.b"} {
		for _, ext := range []string{".user", ".admin", ".txt", ""} {
			if u == "a.b" && (ext == ".txt" || ext == "") {
				continue
			}
			m = append(m,
				entry{file: u + ext, kind: "supported", user: u, ext: ext, content: valid[u]},
				entry{file: u + ext, kind: "unsupported", user: u, ext: ext, content: "argon2id:1:99:AAAA:AAAA\n"},
				entry{file: u + ext, kind: "empty", user: u, ext: ext, content: ""})
		}
	}
	m = append(m,
		entry{file: "a.user", kind: "dir", user: "a", ext: ".user"},
		entry{file: "b.admin", kind: "dir", user: "b", ext: ".admin"},
		entry{file: ".tmp", kind: "tmpdir"},
		entry{file: ".tmp", kind: "tmpdir-nonempty"},
		entry{file: ".tmp", kind: "empty", ext: ""},
		entry{file: ".tmpx", kind: "empty", ext: ""},
		entry{file: "sub", kind: "dir", ext: ""},
	)
	return m
}

// reference predicate for Check (the property statement)
func refCheck(es []entry) bool {
	users := map[string]map[string]bool{}
	okAdmin := false
	for _, e := range es {
		if e.file == ".tmp" {
			continue
		}
		if e.ext != ".user" && e.ext != ".admin" {
			return false
		}
		if users[e.user] == nil {
			users[e.user] = map[string]bool{}
		}
		users[e.user][e.ext] = true
		if e.ext == ".admin" && e.kind == "supported" {
			okAdmin = true
		}
	}
	for _, x := range users {
		if x[".user"] && x[".admin"] {
			return false
		}
	}
	return okAdmin
}

// reference predicate for Init: only on an empty directory, ignoring '.tmp'
func refInit(es []entry) (verdict string) {
	if len(es) == 0 {
		return "ok"
	}
	if len(es) == 1 && es[0].file == ".tmp" {
		if es[0].kind == "tmpdir" {
			return "ok"
		}
		if es[0].kind == "tmpdir-nonempty" {
			return "either" // leftovers in the work area: the statement ignores '.tmp'
		}
		return "either" // '.tmp' as a regular file
	}
	return "fail"
}

func build(dir string, es []entry, order int) {
	os.RemoveAll(dir)
	os.MkdirAll(dir, 0700) //nolint:errcheck
	idx := make([]int, len(es))
	for i := range idx {
		idx[i] = i
	}
	if order == 1 {
		for i, j := 0, len(idx)-1; i < j; i, j = i+1, j-1 {
			idx[i], idx[j] = idx[j], idx[i]
		}
	}
	for _, i := range idx {
		e := es[i]
		p := filepath.Join(dir, e.file)
		switch e.kind {
		case "dir", "tmpdir":
			os.Mkdir(p, 0700) //nolint:errcheck
		case "tmpdir-nonempty":
			os.Mkdir(p, 0700)                                           //nolint:errcheck
			os.WriteFile(filepath.Join(p, "123456"), []byte("x"), 0600) //nolint:errcheck
		default:
			os.WriteFile(p, []byte(e.content), 0600) //nolint:errcheck
		}
	}
}

// adminRecordVariants: "at least one .admin file holds a supported hash" for every clear-cut way a
// record of either algorithm can fail to be one - as the only administrator (Check must refuse)
// and next to a proper administrator (Check must accept).
func adminRecordVariants(root string) {
	dir := filepath.Join(root, "adminvar")
	for _, set := range []uint{1, 2} {
		gen := verifx.CheapDir(filepath.Join(root, "gen-adminvar"), set)
		os.RemoveAll(gen.BaseDir)
		os.MkdirAll(gen.BaseDir, 0700) //nolint:errcheck
		if err := gen.AddUser("adm", "admpw", true); err != nil {
			fmt.Fprintln(os.Stderr, err)
			os.Exit(2)
		}
		gen.AddUser("usr", "usrpw", false)  //nolint:errcheck
		gen.AddUser("good", "goodpw", true) //nolint:errcheck
		rec, _ := os.ReadFile(filepath.Join(gen.BaseDir, "adm.admin"))
		usr, _ := os.ReadFile(filepath.Join(gen.BaseDir, "usr.user"))
		good, _ := os.ReadFile(filepath.Join(gen.BaseDir, "good.admin"))
		f := strings.Split(strings.TrimSuffix(string(rec), "\n"), ":")
		join := func(g ...string) string { return strings.Join(g, ":") + "\n" }
		other := "hmac_sha256_scrypt"
		if set == 2 {
			other = "argon2id"
		}
		variants := map[string]string{
			"empty-digest":        join(f[0], f[1], f[2], f[3], ""),
			"empty-salt":          join(f[0], f[1], f[2], "", f[4]),
			"empty-salt-and-hash": join(f[0], f[1], f[2], "", ""),
			"digest-not-base64":   join(f[0], f[1], f[2], f[3], "!!!!"),
			"salt-not-base64":     join(f[0], f[1], f[2], "!!!!", f[4]),
			"unknown-set":         join(f[0], f[1], "99", f[3], f[4]),
			"set-zero":            join(f[0], f[1], "0", f[3], f[4]),
			"other-algorithm":     join(other, f[1], f[2], f[3], f[4]),
			"no-algorithm":        join("", f[1], f[2], f[3], f[4]),
			"four-fields":         join(f[0], f[1], f[2], f[3]),
			"three-fields":        join(f[0], f[1], f[2]),
			"only-newline":        "\n",
			"empty-file":          "",
		}
		for name, content := range variants {
			for _, withGood := range []bool{false, true} {
				os.RemoveAll(dir)
				os.MkdirAll(dir, 0700)                                               //nolint:errcheck
				os.WriteFile(filepath.Join(dir, "adm.admin"), []byte(content), 0600) //nolint:errcheck
				os.WriteFile(filepath.Join(dir, "usr.user"), usr, 0600)              //nolint:errcheck
				if withGood {
					os.WriteFile(filepath.Join(dir, "good.admin"), good, 0600) //nolint:errcheck
				}
				var err error
				func() {
					defer func() {
						if r := recover(); r != nil {
							err = nil
							ev.Violation("check-panic", fmt.Sprintf("Check panicked on an admin record variant %s (set %d): %v", name, set, r), name)
						}
					}()
					err = verifx.CheapDir(dir, set).Check()
				}()
				ev.Add("evaluations", 1)
				ev.Distinct(fmt.Sprintf("adminvar|%d|%s|%v|%v", set, name, withGood, err == nil))
				if (err == nil) != withGood {
					k := "check-accepts-invalid:only-admin-record-"
					if withGood {
						k = "check-rejects-valid:second-admin-record-"
					}
					ev.Violation(k+name, fmt.Sprintf("Check()=%v on {adm.admin(%s, %s), usr.user(supported)%s}", err, verifx.FormatOfSet(set), name, map[bool]string{true: ", good.admin(supported)", false: ""}[withGood]), map[string]any{"variant": name, "set": set, "with_good_admin": withGood})
				}
			}
		}
	}
}

func desc(es []entry) string {
	var s []string
	for _, e := range es {
		s = append(s, e.file+"("+e.kind+")")
	}
	return "{" + strings.Join(s, ", ") + "}"
}

func main() {
	ev = verifev.New("C16", "dirs")
	root := verifx.Scratch("c16")
	defer os.RemoveAll(root)
	// valid records for a and b
	valid := map[string]string{}
	{
		d := verifx.CheapDir(filepath.Join(root, "gen"), 1)
		os.MkdirAll(d.BaseDir, 0700) //nolint:errcheck
		for _, u := range []string{"a", "b", "a.b"} {
			if err := d.AddUser(u, "pw-"+u, false); err != nil {
				fmt.Fprintln(os.Stderr, err)
				os.Exit(2)
			}
			b, _ := os.ReadFile(filepath.Join(d.BaseDir, u+".user"))
			valid[u] = string(b)
		}
	}
	m := menu(valid)
	maxSize := 3
	if ev.Thorough() {
		maxSize = 4
	}
	var sets [][]entry
	var rec func(start int, cur []entry)
	rec = func(start int, cur []entry) {
		sets = append(sets, append([]entry{}, cur...))
		if len(cur) == maxSize {
			return
		}
		for i := start; i < len(m); i++ {
			clash := false
			for _, c := range cur {
				if c.file == m[i].file {
					clash = true
				}
			}
			if !clash {
				rec(i+1, append(cur, m[i]))
			}
		}
	}
	rec(0, nil)
	ev.Rule = fmt.Sprintf("all %d consistent subsets of size <= %d of a menu of %d directory entries ({a,b} x {.user,.admin,.txt,none} x {supported,unsupported,empty}; a.user/ and b.admin/ as directories; .tmp as empty dir, non-empty dir, file; .tmpx; a sub-directory), each created in both orders; Check and Init vs. reference predicates; 13 clear-cut unsupported admin-record variants x 2 algorithms as only / second administrator; built binary on invalid directories; distinct = distinct (directory shape, Check verdict, Init verdict)", len(sets), maxSize, len(m))
	adminRecordVariants(root)
	dirs := make([]string, verifx.NCPU())
	for i := range dirs {
		dirs[i] = filepath.Join(root, fmt.Sprintf("w%d", i))
	}
	verifx.Parallel(len(sets), func(w, i int) {
		es := sets[i]
		for order := 0; order < 2; order++ {
			if order == 1 && len(es) < 2 {
				continue
			}
			dir := filepath.Join(dirs[w], "s")
			build(dir, es, order)
			d := verifx.CheapDir(dir, 1)
			ev.Add("evaluations", 1)
			before := verifx.Snap(dir)
			var err error
			func() {
				defer func() {
					if r := recover(); r != nil {
						ev.Violation("check-panic", fmt.Sprintf("Check panicked on %s: %v", desc(es), r), desc(es))
					}
				}()
				err = d.Check()
			}()
			want := refCheck(es)
			if (err == nil) != want {
				kind := "check-accepts-invalid"
				if want {
					kind = "check-rejects-valid"
				}
				shape := shapeOf(es)
				ev.Violation(kind+":"+shape, fmt.Sprintf("Check()=%v on directory %s (created in order %d); the statement says valid=%v", err, desc(es), order, want), map[string]any{"entries": desc(es), "order": order})
			}
			if after := verifx.Snap(dir); !after.Equal(before) {
				ev.Violation("check-mutates", fmt.Sprintf("Check changed the directory %s: %s", desc(es), before.Diff(after)), desc(es))
			}
			// Init
			ierr := d.Init("root", "rootpw")
			iv := refInit(es)
			switch {
			case iv == "ok" && ierr != nil:
				ev.Violation("init-refused-on-empty", fmt.Sprintf("Init failed on %s: %v", desc(es), ierr), desc(es))
			case iv == "fail" && ierr == nil:
				ev.Violation("init-on-nonempty:"+shapeOf(es), fmt.Sprintf("Init succeeded on non-empty directory %s", desc(es)), desc(es))
			}
			if ierr != nil {
				if after := verifx.Snap(dir); !after.Equal(before) && iv == "fail" {
					ev.Violation("failed-init-mutates", fmt.Sprintf("failed Init changed %s: %s", desc(es), before.Diff(after)), desc(es))
				}
			} else {
				if cerr := d.Check(); cerr != nil && iv == "ok" {
					ev.Violation("init-result-invalid", fmt.Sprintf("store initialised on %s fails Check: %v", desc(es), cerr), desc(es))
				}
				if ok, adm, _, _, _ := d.Authenticate("root", "rootpw"); !ok || !adm {
					ev.Violation("init-admin-unusable", "admin created by Init does not authenticate as admin", desc(es))
				}
			}
			ev.Distinct(fmt.Sprintf("%s|%v|%v", shapeOf(es), err == nil, ierr == nil))
			if i%2500 == 7 && order == 0 {
				ev.Sample(map[string]any{"directory": desc(es), "check_ok": err == nil, "reference": want, "init_ok": ierr == nil})
			}
		}
	})
	cliPart(root, valid)
	ev.Finish()
}

func shapeOf(es []entry) string {
	var s []string
	for _, e := range es {
		x := e.ext
		if e.file == ".tmp" {
			x = ".tmp"
		}
		s = append(s, x+"/"+e.kind)
	}
	sort.Strings(s)
	return strings.Join(s, "+")
}

// cliPart: every command of the built binary refuses to run on an invalid directory
// (exit status 3, directory unchanged) unless --do-check=false.
func cliPart(root string, valid map[string]string) {
	bin := os.Getenv("VERIF_AGENT_BIN")
	if bin == "" {
		ev.Note("CLI part skipped: no agent binary")
		return
	}
	type inv struct {
		name string
		es   []entry
	}
	a := func(file, kind, user, ext, content string) entry {
		return entry{file: file, kind: kind, user: user, ext: ext, content: content}
	}
	invalid := []inv{
		{"no-admin", []entry{a("a.user", "supported", "a", ".user", valid["a"])}},
		{"both-extensions", []entry{a("a.user", "supported", "a", ".user", valid["a"]), a("a.admin", "supported", "a", ".admin", valid["a"])}},
		{"foreign-file", []entry{a("a.admin", "supported", "a", ".admin", valid["a"]), a("notes.txt", "empty", "", ".txt", "")}},
		{"admin-unsupported", []entry{a("a.admin", "unsupported", "a", ".admin", "argon2id:1:99:AAAA:AAAA\n")}},
		{"empty", nil},
		{"subdir", []entry{a("a.admin", "supported", "a", ".admin", valid["a"]), a("sub", "dir", "", "", "")}},
	}
	cmds := [][]string{
		{"add", "newuser", "Newpass1word"},
		{"remove", "a"},
		{"update", "a", "Otherpass1word"},
		{"set-admin", "a", "true"},
		{"list"},
		{"list", "--full"},
		{"authenticate", "a", "pw-a"},
		{"run", "--listener", "/nonexistent/listener.yaml"},
	}
	for _, iv := range invalid {
		for _, c := range cmds {
			for _, docheck := range []bool{true, false} {
				dir := filepath.Join(root, "cli")
				build(dir, iv.es, 0)
				cf := filepath.Join(root, "cli.yaml")
				os.WriteFile(cf, []byte(verifx.CheapConfigYAML(dir, 1)), 0600) //nolint:errcheck
				before := verifx.Snap(dir)
				args := []string{"--store", cf}
				if !docheck {
					args = append(args, "--do-check=false")
				}
				args = append(args, c...)
				cmd := exec.Command(bin, args...)
				cmd.Env = nil
				for _, e := range os.Environ() {
					if !strings.HasPrefix(e, "WHAWTY_AUTH_") {
						cmd.Env = append(cmd.Env, e)
					}
				}
				cmd.Stdin = nil
				out, err := cmd.CombinedOutput()
				code := 0
				if ee, ok := err.(*exec.ExitError); ok {
					code = ee.ExitCode()
				} else if err != nil {
					fmt.Fprintln(os.Stderr, "cannot run agent binary:", err)
					os.Exit(2)
				}
				ev.Add("evaluations", 1)
				after := verifx.Snap(dir)
				if docheck {
					if code != 3 {
						ev.Violation("cli-runs-on-invalid-store:"+c[0], fmt.Sprintf("`%s` on invalid store (%s) exited with %d, want 3: %s", strings.Join(c, " "), iv.name, code, out), map[string]any{"dir": iv.name, "cmd": c})
					}
					if !after.Equal(before) {
						ev.Violation("cli-changes-invalid-store:"+c[0], fmt.Sprintf("`%s` changed the invalid store (%s): %s", strings.Join(c, " "), iv.name, before.Diff(after)), map[string]any{"dir": iv.name, "cmd": c})
					}
				}
				ev.Distinct(fmt.Sprintf("cli|%s|%s|%v|%d", iv.name, c[0], docheck, code))
			}
		}
	}
	ev.Sample(map[string]any{"cli": "6 invalid directories x 8 commands x do-check on/off", "example": "whawty-auth --store cfg add newuser ... on a store without admin => exit 3"})
}
