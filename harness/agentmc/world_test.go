package main

// Harness infrastructure for exploring the REWRITTEN agent (cmd/whawty-auth bound to
// verifmc by mcrewrite) under the controlled scheduler.  Mounted into the package by the
// build overlay; never part of /repo.

import (
	"bytes"
	"encoding/json"
	"fmt"
	"io"
	"log"
	"net/http/httptest"
	"os"
	"path/filepath"
	"sort"
	"strings"
	"syscall"
	"time"

	"github.com/whawty/auth/internal/verifev"
	mc "github.com/whawty/auth/internal/verifmc"
	"github.com/whawty/auth/internal/verifmc/vexec"
	"github.com/whawty/auth/internal/verifmc/vhttp"
	"github.com/whawty/auth/internal/verifmc/vsignal"
	"github.com/whawty/auth/internal/verifmc/vtime"
	"github.com/whawty/auth/internal/verifx"
	lib "github.com/whawty/auth/store"
)

// ---- scenario description ---------------------------------------------------------------

type userSpec struct {
	Name  string
	Pw    string
	Set   uint
	Admin bool
	Aux   string
}

type cop struct {
	Kind  string // auth update add remove setadmin list listfull sighup advance
	User  string
	Pw    string
	Admin bool
	NewPw string // webupdate: the new password (Pw is the old one)
	Via   string // "" = Store interface; "sasl" | "ldap" | "webupdate-old" | "basic"
	Cfg   int    // sighup: which configuration to install before signalling
}

func (o cop) String() string {
	switch o.Kind {
	case "auth":
		return fmt.Sprintf("auth(%s,%s)%s", o.User, o.Pw, via(o.Via))
	case "update":
		return fmt.Sprintf("update(%s,%s)%s", o.User, o.Pw, via(o.Via))
	case "webupdate":
		return fmt.Sprintf("webupdate(%s,old=%s,new=%s)", o.User, o.Pw, o.NewPw)
	case "add":
		return fmt.Sprintf("add(%s,%s,%v)", o.User, o.Pw, o.Admin)
	case "remove":
		return fmt.Sprintf("remove(%s)", o.User)
	case "setadmin":
		return fmt.Sprintf("setadmin(%s,%v)", o.User, o.Admin)
	case "sighup":
		return fmt.Sprintf("sighup(cfg%d)", o.Cfg)
	case "sleep":
		return fmt.Sprintf("sleep(%ds)", o.Cfg)
	}
	return o.Kind
}

func via(v string) string {
	if v == "" {
		return ""
	}
	return "@" + v
}

type scenario struct {
	Name            string
	Upgrades        string // "" | "local" | "remote-ok" | "remote-4xx" | "remote-unreachable" | "remote-stall"
	Hooks           string // "" | "fast" | "fail" | "hang" | "nostart"
	CapLimit        int    // 0 = true capacities
	Default         uint
	Users           []userSpec
	Clients         [][]cop
	Policy          string // policy condition ("" = none)
	NoUpgradeEffect bool   // (informational) logins only
	Linearize       bool   // the oracle judges histories: real-time precedence is part of the state key
	// alternative configurations for reload scenarios (index 0 = initial)
	Cfgs []cfgSpec
}

type cfgSpec struct {
	Kind    string // "valid" | "unparsable" | "badcheck" | "same"
	Default uint
	Dir     string // "A" or "B"
}

// ---- per-execution world ----------------------------------------------------------------

type event struct {
	Client int
	Op     cop
	Inv    int // scheduler step at invocation
	Resp   int // scheduler step at response (-1: none yet)
	Res    string
}

type world struct {
	sc         *scenario
	root       string
	dirA       string
	dirB       string
	cfgFile    string
	hookDir    string
	st         *store
	iface      *Store
	events     []*event
	notes      []string
	startErr   error
	sess       *webSessionFactory
	digA, digB string
	cfgIx      int
}

var (
	W        *world
	procRoot string // fixed per process so that paths (part of state keys) are stable
	pwMemo   = map[string]string{}
	inoMemo  = map[string]string{}
	alphabet []string
)

func init() {
	log.SetOutput(io.Discard)
	wl.SetOutput(io.Discard)
}

func scratchRoot() string {
	if procRoot == "" {
		procRoot = verifx.Scratch("agentmc")
	}
	return procRoot
}

func (sc *scenario) passwords() []string {
	m := map[string]bool{}
	for _, u := range sc.Users {
		m[u.Pw] = true
	}
	for _, c := range sc.Clients {
		for _, o := range c {
			if o.Pw != "" {
				m[o.Pw] = true
			}
			if o.NewPw != "" {
				m[o.NewPw] = true
			}
		}
	}
	var ps []string
	for p := range m {
		ps = append(ps, p)
	}
	sort.Strings(ps)
	return ps
}

// newWorld builds the store directory (always at the same path) for one execution.
func newWorld(sc *scenario) *world {
	w := &world{sc: sc, root: filepath.Join(scratchRoot(), "w")}
	os.RemoveAll(w.root)
	w.dirA = filepath.Join(w.root, "A")
	w.dirB = filepath.Join(w.root, "B")
	w.cfgFile = filepath.Join(w.root, "store.yaml")
	must(os.MkdirAll(w.dirA, 0700))
	fill := func(dir string, users []userSpec) {
		for _, u := range users {
			d := verifx.CheapDir(dir, u.Set)
			must(d.AddUser(u.Name, u.Pw, u.Admin))
			if u.Aux != "" {
				f := filepath.Join(dir, u.Name+".user")
				if u.Admin {
					f = filepath.Join(dir, u.Name+".admin")
				}
				b, _ := os.ReadFile(f)
				must(os.WriteFile(f, append(b, []byte(u.Aux)...), 0600))
			}
		}
	}
	tmpl := filepath.Join(scratchRoot(), "tmpl-"+sc.Name)
	if _, err := os.Stat(tmpl); err != nil {
		must(os.MkdirAll(filepath.Join(tmpl, "A"), 0700))
		fill(filepath.Join(tmpl, "A"), sc.Users)
		if len(sc.Cfgs) > 0 {
			must(os.MkdirAll(filepath.Join(tmpl, "B"), 0700))
			fill(filepath.Join(tmpl, "B"), []userSpec{{Name: "root", Pw: "rootpw", Set: 1, Admin: true}, {Name: "u", Pw: "pwB", Set: 1}})
		}
	}
	copyDir(filepath.Join(tmpl, "A"), w.dirA)
	if len(sc.Cfgs) > 0 {
		must(os.MkdirAll(w.dirB, 0700))
		copyDir(filepath.Join(tmpl, "B"), w.dirB)
	}
	def := sc.Default
	if def == 0 {
		def = 1
	}
	must(os.WriteFile(w.cfgFile, []byte(verifx.CheapConfigYAML(w.dirA, def)), 0600))
	if sc.Hooks != "" {
		w.hookDir = filepath.Join(w.root, "hooks")
		must(os.MkdirAll(w.hookDir, 0755))
		must(os.WriteFile(filepath.Join(w.hookDir, "h1"), []byte("#!/bin/sh\n"), 0755))
		if sc.Hooks == "nostart" {
			// an executable whose interpreter is missing: it is eligible, but cannot be started
			must(os.WriteFile(filepath.Join(w.hookDir, "h0"), []byte("#!/nonexistent/interpreter\n"), 0755))
		}
	}
	return w
}

func copyDir(src, dst string) {
	ents, err := os.ReadDir(src)
	must(err)
	for _, e := range ents {
		if e.IsDir() {
			continue
		}
		b, err := os.ReadFile(filepath.Join(src, e.Name()))
		must(err)
		must(os.WriteFile(filepath.Join(dst, e.Name()), b, 0600))
	}
}

func must(err error) {
	if err != nil {
		fmt.Fprintln(os.Stderr, "harness infrastructure error:", err)
		os.Exit(2)
	}
}

func (w *world) installCfg(i int) {
	w.cfgIx = i
	c := w.sc.Cfgs[i]
	dir := w.dirA
	if c.Dir == "B" {
		dir = w.dirB
	}
	switch c.Kind {
	case "valid", "same":
		must(os.WriteFile(w.cfgFile, []byte(verifx.CheapConfigYAML(dir, c.Default)), 0600))
	case "unparsable":
		must(os.WriteFile(w.cfgFile, []byte("basedir: "+dir+"\ndefault: 1\nparams: [ {id: 1, bogus: 3} ]\n"), 0600))
	case "samedir-sets-removed":
		// same base directory, well-formed, but only parameter set 2 is defined: every record of
		// the directory (all under set 1) becomes unsupported, so the consistency check fails
		must(os.WriteFile(w.cfgFile, []byte(verifx.CheapConfigYAMLOnly(w.dirA, 2, []uint{2})), 0600))
	case "badcheck":
		empty := filepath.Join(w.root, "empty")
		os.MkdirAll(empty, 0700) //nolint:errcheck
		must(os.WriteFile(w.cfgFile, []byte(verifx.CheapConfigYAML(empty, c.Default)), 0600))
	}
}

// rootBody is the root thread of every execution.
func rootBody(sc *scenario) func() { return rootBodyWith(sc, nil) }

var dispSite, hkSite string

// dispatcherSite / hooksSite: spawn sites (file:line of the go statements) of the two
// long-running agent threads, learnt from the first execution.
func dispatcherSite() string { return dispSite }
func hooksSite() string      { return hkSite }

func rootBodyWith(sc *scenario, class func(i int, ops []cop) string) func() {
	return func() {
		mc.CapLimit = sc.CapLimit
		mc.FileOpsInterleave = sc.Upgrades != "remote-ok-custom" // two agents = two legitimate store accessors
		W = newWorld(sc)
		w := W
		upg := ""
		switch {
		case sc.Upgrades == "local":
			upg = "local"
		case strings.HasPrefix(sc.Upgrades, "remote"):
			upg = "http://master.invalid/api/update"
			hw := vhttp.GetWorld()
			switch sc.Upgrades {
			case "remote-ok":
				hw.Master = func(req *vhttp.Request) (*vhttp.Response, error) {
					return &vhttp.Response{StatusCode: 200, Status: "200 OK", Body: io.NopCloser(strings.NewReader("{}"))}, nil
				}
			case "remote-4xx":
				hw.Master = func(req *vhttp.Request) (*vhttp.Response, error) {
					return &vhttp.Response{StatusCode: 401, Status: "401 Unauthorized", Body: io.NopCloser(strings.NewReader("{}"))}, nil
				}
			case "remote-unreachable":
				hw.Master = func(req *vhttp.Request) (*vhttp.Response, error) {
					return nil, &os.PathError{Op: "dial", Path: "master.invalid", Err: syscall.ECONNREFUSED}
				}
			case "remote-stall":
				hw.Stall = true
			case "remote-ok-custom":
				// the harness installed its own master
			}
		}
		xw := vexec.GetWorld()
		switch sc.Hooks {
		case "hang":
			xw.Behaviour = func(string) vexec.Behaviour { return vexec.Hang }
		case "fail":
			xw.Behaviour = func(string) vexec.Behaviour { return vexec.ExitFail }
		case "nostart":
			xw.Behaviour = func(p string) vexec.Behaviour {
				if strings.HasSuffix(p, "/h0") {
					return vexec.StartFail
				}
				return vexec.ExitOK
			}
		}
		ptype := ""
		if sc.Policy != "" {
			ptype = "zxcvbn"
		}
		s, err := NewStore(w.cfgFile, upg, ptype, sc.Policy, w.hookDir)
		if err != nil {
			w.startErr = err
			return
		}
		w.st = s
		w.iface = s.GetInterface()
		for _, t := range mc.Cur().Threads() {
			if strings.HasPrefix(t.Site, "store.go:") && dispSite == "" && !strings.Contains(t.Site, "client") {
				// the last store.go spawn in NewStore is the dispatcher
				dispSite = t.Site
			}
			if strings.HasPrefix(t.Site, "hooks.go:") {
				hkSite = t.Site
			}
		}
		for _, t := range mc.Cur().Threads() {
			if strings.HasPrefix(t.Site, "store.go:") {
				dispSite = t.Site
			}
		}
		for i, ops := range sc.Clients {
			i, ops := i, ops
			cl := ""
			if class != nil {
				cl = class(i, ops)
			}
			mc.GoClientClass(fmt.Sprintf("c%d", i), cl, func() { w.runClient(i, ops) })
		}
	}
}

func (w *world) runClient(ci int, ops []cop) {
	s := mc.Cur()
	for _, o := range ops {
		ev := &event{Client: ci, Op: o, Inv: s.Steps, Resp: -1}
		w.events = append(w.events, ev)
		ev.Res = w.doOp(o)
		ev.Resp = s.Steps
		mc.Me().Local = nil
	}
}

func errS(err error) string {
	if err != nil {
		return "err"
	}
	return "ok"
}

func (w *world) doOp(o cop) string {
	st := w.iface
	switch o.Kind {
	case "auth":
		if r, ok := w.viaFrontend(o); ok {
			return r
		}
		switch o.Via {
		case "sasl":
			ok, _, err := callback(o.User, o.Pw, "svc", "realm", "/sock", st)
			return fmt.Sprintf("%v/%s", ok, errS(err))
		case "ldap":
			code, _ := ldapHandler{store: st}.Bind(o.User, o.Pw, nil)
			return fmt.Sprintf("%v", code == 0)
		}
		ok, adm, _, _ := st.Authenticate(o.User, o.Pw)
		return fmt.Sprintf("%v/%v", ok, ok && adm)
	case "update":
		return errS(st.Update(o.User, o.Pw))
	case "webupdate":
		b, _ := json.Marshal(map[string]string{"username": o.User, "oldpassword": o.Pw, "newpassword": o.NewPw})
		rec := httptest.NewRecorder()
		handleWebUpdate(st, w.sessions(), rec, httptest.NewRequest("POST", "/api/update", bytes.NewReader(b)))
		return fmt.Sprintf("%v", rec.Code == 200)
	case "add":
		return errS(st.Add(o.User, o.Pw, o.Admin))
	case "remove":
		return errS(st.Remove(o.User))
	case "setadmin":
		return errS(st.SetAdmin(o.User, o.Admin))
	case "list":
		l, err := st.List()
		var ks []string
		for u, e := range l {
			ks = append(ks, fmt.Sprintf("%s:%v", u, e.IsAdmin))
		}
		sort.Strings(ks)
		return strings.Join(ks, ",") + "/" + errS(err)
	case "check":
		return errS(st.Check())
	case "sleep":
		vtime.Sleep(time.Duration(o.Cfg) * time.Second)
		return "slept"
	case "sighup":
		w.installCfg(o.Cfg)
		vsignal.Deliver("harness.sighup", syscall.SIGHUP)
		return "sent"
	case "await-idle":
		// the client waits until the agent has nothing left to do (no queued request, no upgrade in
		// flight, no timer pending): "on an otherwise idle agent"
		me := mc.Me()
		mc.Ext("harness.await-idle", "await-idle", func() bool {
			return mc.Cur().QuietExcept(func(t *mc.Thread) bool { return t == me })
		}, func() {})
		return "idle"
	case "await-cfg":
		// the client waits until the reloaded configuration is in effect (as an operator does who
		// watches the log before trying again)
		cv := w.cfgView(o.Cfg)
		mc.Ext("harness.await-cfg", fmt.Sprintf("await-cfg-%d", o.Cfg), func() bool {
			return w.st != nil && w.st.dir.BaseDir == cv.dir && w.st.dir.Default == cv.def
		}, func() {})
		return "in-effect"
	}
	panic("unknown op " + o.Kind)
}

// ---- state key ----------------------------------------------------------------------------

func fileDigest(d *lib.Dir, name, content string) string {
	k := d.BaseDir + "\x00" + name + "\x00" + content
	if v, ok := pwMemo[k]; ok {
		return v
	}
	user := strings.TrimSuffix(strings.TrimSuffix(name, ".user"), ".admin")
	first, aux, _ := strings.Cut(content, "\n")
	parts := strings.SplitN(first, ":", 4)
	set := "?"
	if len(parts) == 4 {
		set = parts[2]
	}
	var ok []string
	for i, p := range alphabet {
		if y, _, _, _, _ := d.Authenticate(user, p); y {
			ok = append(ok, fmt.Sprint(i))
		}
	}
	v := fmt.Sprintf("%s set=%s pw=%s aux=%q", name, set, strings.Join(ok, "+"), aux)
	pwMemo[k] = v
	return v
}

func dirDigest(dir string) string {
	ents, err := os.ReadDir(dir)
	if err != nil {
		return "unreadable"
	}
	d := verifx.CheapDir(dir, 1)
	var out []string
	for _, e := range ents {
		if e.IsDir() {
			sub, _ := os.ReadDir(filepath.Join(dir, e.Name()))
			out = append(out, fmt.Sprintf("%s/(%d)", e.Name(), len(sub)))
			continue
		}
		// files are only ever replaced by rename of a fresh temp file, so (name, inode,
		// size, mtime) identifies the content; the content is read once per identity
		id := ""
		if fi, err := e.Info(); err == nil {
			if st, ok := fi.Sys().(*syscall.Stat_t); ok {
				id = fmt.Sprintf("%s|%s|%d|%d|%d", dir, e.Name(), st.Ino, fi.Size(), fi.ModTime().UnixNano())
			}
		}
		if v, ok := inoMemo[id]; ok && id != "" {
			out = append(out, v)
			continue
		}
		b, _ := os.ReadFile(filepath.Join(dir, e.Name()))
		v := fileDigest(d, e.Name(), string(b))
		if id != "" {
			inoMemo[id] = v
		}
		out = append(out, v)
	}
	return strings.Join(out, ";")
}

func harnessKey() string {
	w := W
	if w == nil {
		return ""
	}
	// only agent threads spawned from store.go (dispatcher, upgraders) touch the store
	// directories, so the (expensive) directory digests are recomputed only after they ran
	if r := mc.Cur().Running(); w.digA == "" || r == nil || strings.HasPrefix(r.Site, "store.go") || r.Site == "root" {
		w.digA = dirDigest(w.dirA)
		if len(w.sc.Cfgs) > 0 {
			w.digB = dirDigest(w.dirB)
		}
	}
	k := mc.Repr(w.st) + "|A:" + w.digA + "|B:" + w.digB + fmt.Sprintf("|cfg:%d", w.cfgIx)
	if w.sc.Linearize {
		k += "|prec:" + w.precedenceKey()
	}
	if xw := vexec.GetWorld(); xw != nil {
		// processes started and not yet waited for
		for _, r := range xw.Starts {
			if r.Err == "" && !r.Waited {
				k += fmt.Sprintf("|proc %s killed=%v", r.Path, r.Killed)
			}
		}
	}
	return k
}

// ---- reporting ----------------------------------------------------------------------------

type replayFile struct {
	Scenario string   `json:"scenario"`
	Mode     string   `json:"mode"`
	Order    int      `json:"order"`
	Choices  []int    `json:"choices"`
	Trace    []string `json:"trace"`
	Events   []string `json:"events"`
}

func reporter(ev *verifev.Run, sc *scenario, mode string, order int) func(v mc.Viol, choices []int, trace []string) {
	return func(v mc.Viol, choices []int, trace []string) {
		ev.Violation(v.Key, fmt.Sprintf("[scenario %s, %s] %s", sc.Name, mode, v.Desc),
			replayFile{Scenario: sc.Name, Mode: mode, Order: order, Choices: choices, Trace: trace})
	}
}

func (w *world) describeEvents() []string {
	var out []string
	for _, e := range w.events {
		out = append(out, fmt.Sprintf("c%d %s [%d,%d] -> %s", e.Client, e.Op, e.Inv, e.Resp, e.Res))
	}
	return out
}
