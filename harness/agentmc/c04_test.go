package main

// C04 (concurrency part) — every frontend returns exactly the store's verdict for the
// submitted credentials, also when several requests are in flight on the same listener:
// the store is never changed in these scenarios, so every answer is fixed by the submitted
// credentials alone; every schedule of the rewritten dispatcher and the frontend handlers is
// explored and each answer compared with the sequential store (the C11 oracle restricted to
// read-only histories).

import mc "github.com/whawty/auth/internal/verifmc"

func init() {
	props["C04"] = &propSpec{scenarios: c04Scenarios, harness: c11Harness, modes: c04Modes}
}

func c04Scenarios(thorough bool) []*scenario {
	mk := func(name string, cl ...[]cop) *scenario {
		return &scenario{Name: name, Upgrades: "", CapLimit: 0, Default: 1, Users: c11Users, Clients: cl, Linearize: true}
	}
	av := func(u, p, via string) cop { return cop{Kind: "auth", User: u, Pw: p, Via: via} }
	out := []*scenario{
		mk("sasl-right-vs-wrong", []cop{av("u", "o", "sasl")}, []cop{av("u", "x", "sasl")}),
		mk("admin-vs-user", []cop{av("root", "rootpw", "")}, []cop{av("u", "o", "")}),
		mk("sasl-ldap-store", []cop{av("u", "o", "sasl")}, []cop{av("u@realm", "x", "ldap")}, []cop{av("root", "rootpw", "")}),
		mk("basic-vs-api", []cop{av("u", "o", "basic")}, []cop{av("v", "o", "api-auth")}),
		mk("two-each", []cop{av("u", "o", "sasl"), av("u", "x", "ldap")}, []cop{av("v", "vpw", "basic"), av("root", "x", "sasl")}),
	}
	if thorough {
		out = append(out,
			mk("four-clients", []cop{av("u", "o", "sasl")}, []cop{av("u", "x", "sasl")}, []cop{av("v", "vpw", "ldap")}, []cop{av("nobody", "o", "basic")}),
			mk("three-each", []cop{av("u", "o", "sasl"), av("u", "x", "ldap"), av("u", "o", "api-auth")}, []cop{av("v", "vpw", "basic"), av("root", "x", "sasl"), av("v", "o", "")}),
		)
	}
	return out
}

func c04Modes(sc *scenario, thorough bool) []mc.Options {
	return c11Modes(sc, thorough)
}
