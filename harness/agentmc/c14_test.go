package main

// C14 (agent part) — records written by the running agent follow the parameters that are
// configured at that moment: after a reload that changes the default parameter set (and only
// that), every add and update writes a record of the new default, which authenticates under a
// fresh store object for the new configuration.

import (
	"fmt"
	"os"
	"path/filepath"
	"strings"

	mc "github.com/whawty/auth/internal/verifmc"
	"github.com/whawty/auth/internal/verifx"
)

func init() {
	props["C14"] = &propSpec{scenarios: c14Scenarios, harness: c14Harness, modes: c14Modes}
}

func c14Scenarios(thorough bool) []*scenario {
	var out []*scenario
	for _, d2 := range []uint{3, 2} {
		cfgs := []cfgSpec{{Kind: "valid", Default: 1, Dir: "A"}, {Kind: "valid", Default: d2, Dir: "A"}}
		out = append(out, &scenario{Name: fmt.Sprintf("default-changes-to-%d-then-writes", d2), Default: 1, Users: c18Users, Cfgs: cfgs, Hooks: "fast",
			Clients: [][]cop{{{Kind: "update", User: "u", Pw: "n1"}, {Kind: "sighup", Cfg: 1}, {Kind: "await-cfg", Cfg: 1},
				{Kind: "update", User: "u", Pw: "n2"}, {Kind: "add", User: "w", Pw: "wpw"}, {Kind: "auth", User: "u", Pw: "n2"}}}})
	}
	return out
}

func c14Modes(sc *scenario, thorough bool) []mc.Options {
	return []mc.Options{{Bound: -1, Prune: true, MaxSteps: 6000}}
}

func c14Harness(sc *scenario) mc.Harness {
	return mc.Harness{
		Name:     sc.Name,
		Root:     rootBody(sc),
		Key:      harnessKey,
		Priority: hookFamilyPriority(sc),
		Final: func(s *mc.Sched, out mc.Outcome) []mc.Viol {
			v := c10Final(s, out)
			if out != mc.Quiescent || W.startErr != nil {
				return v
			}
			w := W
			def := sc.Cfgs[1].Default
			d := verifx.CheapDir(w.dirA, def)
			for user, pw := range map[string]string{"u": "n2", "w": "wpw"} {
				b, err := os.ReadFile(filepath.Join(w.dirA, user+".user"))
				if err != nil {
					v = append(v, mc.Viol{Key: "record-missing", Desc: fmt.Sprintf("%s: %v; events: %s", user, err, strings.Join(w.describeEvents(), " | "))})
					continue
				}
				f := strings.SplitN(strings.SplitN(string(b), "\n", 2)[0], ":", 5)
				if len(f) != 5 || f[0] != verifx.FormatOfSet(def) || f[2] != fmt.Sprint(def) {
					v = append(v, mc.Viol{Key: "record-not-under-configured-default", Desc: fmt.Sprintf("after the reload to default %d the record written for %s starts %q; events: %s", def, user, strings.Join(f[:min(3, len(f))], ":"), strings.Join(w.describeEvents(), " | "))})
				}
				if ok, _, upg, _, _ := d.Authenticate(user, pw); !ok || upg {
					v = append(v, mc.Viol{Key: "record-not-under-configured-default", Desc: fmt.Sprintf("record of %s under the new configuration: ok=%v upgradeable=%v", user, ok, upg)})
				}
			}
			return v
		},
		Observe: observeTerminal,
	}
}
