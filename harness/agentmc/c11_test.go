package main

// C11 — concurrent requests are linearizable; acknowledged changes are never undone.
// Every complete execution's call/return history is checked by an exhaustive search over
// all sequential orders consistent with real time against the sequential store model,
// including the final store read-out taken at quiescence.

import (
	"fmt"
	"os"
	"sort"
	"strings"

	mc "github.com/whawty/auth/internal/verifmc"
	"github.com/whawty/auth/internal/verifx"
)

func init() {
	props["C11"] = &propSpec{scenarios: c11Scenarios, harness: c11Harness, modes: c11Modes}
}

var c11Users = []userSpec{
	{Name: "root", Pw: "rootpw", Set: 1, Admin: true},
	{Name: "u", Pw: "o", Set: 2, Aux: "aux line 1\naux line 2\n"}, // upgradeable (default 1)
	{Name: "v", Pw: "vpw", Set: 1},
}

func c11Scenarios(thorough bool) []*scenario {
	mk := func(name, up string, cl ...[]cop) *scenario {
		return &scenario{Name: name, Upgrades: up, CapLimit: 0, Default: 1, Users: c11Users, Clients: cl, Linearize: true}
	}
	a := func(u, p string) cop { return cop{Kind: "auth", User: u, Pw: p} }
	av := func(u, p, via string) cop { return cop{Kind: "auth", User: u, Pw: p, Via: via} }
	upd := func(u, p string) cop { return cop{Kind: "update", User: u, Pw: p} }
	rm := func(u string) cop { return cop{Kind: "remove", User: u} }
	add := func(u, p string, adm bool) cop { return cop{Kind: "add", User: u, Pw: p, Admin: adm} }
	sa := func(u string, b bool) cop { return cop{Kind: "setadmin", User: u, Admin: b} }
	ls := cop{Kind: "list"}
	var out []*scenario
	for _, up := range []string{"local", ""} {
		t := "[" + up + "]"
		out = append(out,
			mk("update-vs-login"+t, up, []cop{upd("u", "n")}, []cop{a("u", "o")}),
			mk("update-vs-login-readback"+t, up, []cop{upd("u", "n"), a("u", "n")}, []cop{a("u", "o")}),
			mk("remove-readd-vs-login"+t, up, []cop{rm("u"), add("u", "m", false)}, []cop{a("u", "o")}),
			mk("setadmin-vs-login"+t, up, []cop{sa("u", true)}, []cop{a("u", "o"), ls}),
			mk("three-clients"+t, up, []cop{upd("u", "n")}, []cop{a("u", "o")}, []cop{a("u", "n")}),
			mk("frontends"+t, up, []cop{av("u", "o", "sasl")}, []cop{upd("u", "n")}, []cop{av("u@realm", "o", "ldap")}),
		)
	}
	out = append(out,
		mk("mgmt-mix[]", "", []cop{add("w", "x", false), ls}, []cop{rm("v")}, []cop{sa("u", true)}),
		mk("add-race[]", "", []cop{add("w", "x", false), a("w", "y")}, []cop{add("w", "y", true), a("w", "x")}),
		mk("two-updates[]", "", []cop{upd("u", "n1"), a("u", "n2")}, []cop{upd("u", "n2"), a("u", "n1")}),
		// nothing changes the store: every answer is fixed, concurrent callers must not swap them
		mk("logins-different-verdicts[]", "", []cop{a("u", "o")}, []cop{a("u", "x")}, []cop{a("root", "rootpw")}),
	)
	out = append(out,
		mk("web-update-oldpw-vs-update[]", "", []cop{{Kind: "webupdate", User: "u", Pw: "o", NewPw: "w1"}}, []cop{upd("u", "n")}),
		mk("web-update-oldpw-vs-remove[]", "", []cop{{Kind: "webupdate", User: "u", Pw: "o", NewPw: "w1"}}, []cop{rm("u"), add("u", "m", false)}),
	)
	if thorough {
		out = append(out,
			mk("mgmt-mix-auth[]", "", []cop{add("w", "x", false), ls}, []cop{rm("v")}, []cop{sa("u", true), a("u", "o")}),
			mk("mgmt-mix-full[]", "", []cop{add("w", "x", false), ls}, []cop{rm("v"), ls}, []cop{sa("u", true), a("u", "o")}),
			mk("two-logins-update[local]", "local", []cop{a("u", "o"), upd("u", "n")}, []cop{a("u", "o"), a("u", "n")}),
			mk("four-clients[local]", "local", []cop{upd("u", "n")}, []cop{a("u", "o")}, []cop{rm("u")}, []cop{a("u", "n")}),
		)
	}
	return out
}

func c11Modes(sc *scenario, thorough bool) []mc.Options {
	out := []mc.Options{{Bound: -1, Prune: true, MaxSteps: 4000}}
	b := 2
	if thorough {
		b = 3
	}
	for order := 0; order < 4; order++ {
		out = append(out, mc.Options{Bound: b, AllCost: true, Order: order, MaxSteps: 4000})
	}
	return out
}

func c11Harness(sc *scenario) mc.Harness {
	return mc.Harness{
		Name: sc.Name,
		Root: rootBody(sc),
		Key:  harnessKey,
		Final: func(s *mc.Sched, out mc.Outcome) []mc.Viol {
			v := c10Final(s, out) // a wedged or panicking agent is reported here as well
			if out == mc.Quiescent && W.startErr == nil {
				v = append(v, c11Final(s)...)
			}
			return v
		},
		Observe: observeTerminal,
	}
}

// ---- sequential reference model ------------------------------------------------------------

type lrec struct {
	pw    string
	admin bool
}

type lmodel map[string]lrec

func (m lmodel) clone() lmodel {
	n := lmodel{}
	for k, v := range m {
		n[k] = v
	}
	return n
}

func (m lmodel) String() string {
	var ks []string
	for u, r := range m {
		ks = append(ks, fmt.Sprintf("%s=%s,%v", u, r.pw, r.admin))
	}
	sort.Strings(ks)
	return strings.Join(ks, ";")
}

// applyModel returns the response the sequential store gives to o in state m (and mutates m).
func applyModel(m lmodel, o cop) string {
	user := o.User
	if o.Via == "ldap" {
		user, _, _ = strings.Cut(user, "@")
	}
	r, ok := m[user]
	switch o.Kind {
	case "auth":
		good := ok && r.pw == o.Pw
		switch o.Via {
		case "sasl":
			if good {
				return "true/ok"
			}
			return "false/err"
		case "ldap", "basic", "api-auth":
			return fmt.Sprintf("%v", good)
		case "api-login":
			if !good {
				return "false"
			}
			return fmt.Sprintf("true/token(true,%s,%v)/body(%s,%v)", user, r.admin, user, r.admin)
		}
		return fmt.Sprintf("%v/%v", good, good && r.admin)
	case "update":
		if !ok {
			return "err"
		}
		r.pw = o.Pw
		m[user] = r
		return "ok"
	case "webupdate":
		// HTTP password update authorised by the old password: one request
		if !ok || r.pw != o.Pw {
			return "false"
		}
		r.pw = o.NewPw
		m[user] = r
		return "true"
	case "add":
		if ok {
			return "err"
		}
		m[user] = lrec{pw: o.Pw, admin: o.Admin}
		return "ok"
	case "remove":
		delete(m, user)
		return "ok"
	case "setadmin":
		if !ok {
			return "err"
		}
		r.admin = o.Admin
		m[user] = r
		return "ok"
	case "list":
		var ks []string
		for u, r := range m {
			ks = append(ks, fmt.Sprintf("%s:%v", u, r.admin))
		}
		sort.Strings(ks)
		return strings.Join(ks, ",") + "/ok"
	case "check":
		for _, r := range m {
			if r.admin {
				return "ok"
			}
		}
		return "err"
	}
	panic("model: unknown op " + o.Kind)
}

// readOut observes the final store directly (library level, fresh Dir object).
func readOut(dir string, pws []string) (lmodel, []string) {
	var problems []string
	m := lmodel{}
	d := verifx.CheapDir(dir, 1)
	ents, err := os.ReadDir(dir)
	if err != nil {
		return m, []string{"store unreadable: " + err.Error()}
	}
	for _, e := range ents {
		n := e.Name()
		if n == ".tmp" {
			sub, _ := os.ReadDir(dir + "/.tmp")
			if len(sub) != 0 {
				problems = append(problems, fmt.Sprintf(".tmp holds %d leftover files", len(sub)))
			}
			continue
		}
		user := strings.TrimSuffix(strings.TrimSuffix(n, ".user"), ".admin")
		if user == n {
			problems = append(problems, "foreign file "+n)
			continue
		}
		if _, dup := m[user]; dup {
			problems = append(problems, "two files for user "+user)
		}
		rec := lrec{admin: strings.HasSuffix(n, ".admin"), pw: "<none of the alphabet>"}
		cnt := 0
		for _, p := range pws {
			if ok, _, _, _, _ := d.Authenticate(user, p); ok {
				rec.pw = p
				cnt++
			}
		}
		if cnt > 1 {
			problems = append(problems, fmt.Sprintf("%d passwords verify for %s", cnt, user))
		}
		m[user] = rec
	}
	if err := d.Check(); err != nil {
		hasAdmin := false
		for _, r := range m {
			hasAdmin = hasAdmin || r.admin
		}
		if hasAdmin {
			problems = append(problems, "consistency check fails: "+err.Error())
		}
	}
	return m, problems
}

func c11Final(s *mc.Sched) []mc.Viol {
	w := W
	var v []mc.Viol
	init := lmodel{}
	for _, u := range w.sc.Users {
		init[u.Name] = lrec{pw: u.Pw, admin: u.Admin}
	}
	final, problems := readOut(w.dirA, alphabet)
	for _, p := range problems {
		v = append(v, mc.Viol{Key: "final-store:" + strings.SplitN(p, " ", 2)[0], Desc: p + "; events: " + strings.Join(w.describeEvents(), " | ")})
	}
	evs := w.events
	n := len(evs)
	if n > 12 {
		must(fmt.Errorf("history too long for the linearizability search: %d", n))
	}
	memo := map[string]bool{}
	var order []int
	var rec func(done uint, m lmodel) bool
	rec = func(done uint, m lmodel) bool {
		if done == (1<<uint(n))-1 {
			return m.String() == final.String()
		}
		mk := fmt.Sprintf("%d|%s", done, m.String())
		if memo[mk] {
			return false
		}
		for i := 0; i < n; i++ {
			if done&(1<<uint(i)) != 0 {
				continue
			}
			// i may go next only if no other remaining operation finished before i began
			minimal := true
			for j := 0; j < n; j++ {
				if j != i && done&(1<<uint(j)) == 0 && evs[j].Resp < evs[i].Inv {
					minimal = false
					break
				}
			}
			if !minimal {
				continue
			}
			m2 := m.clone()
			if applyModel(m2, evs[i].Op) != evs[i].Res {
				continue
			}
			order = append(order, i)
			if rec(done|1<<uint(i), m2) {
				return true
			}
			order = order[:len(order)-1]
		}
		memo[mk] = true
		return false
	}
	if !rec(0, init) {
		// classify: is there a linearization of the responses alone (then the final store is wrong)?
		kind := "responses"
		saveFinal := final
		memo = map[string]bool{}
		okResp := false
		var rec2 func(done uint, m lmodel) bool
		rec2 = func(done uint, m lmodel) bool {
			if done == (1<<uint(n))-1 {
				return true
			}
			mk := fmt.Sprintf("%d|%s", done, m.String())
			if memo[mk] {
				return false
			}
			for i := 0; i < n; i++ {
				if done&(1<<uint(i)) != 0 {
					continue
				}
				minimal := true
				for j := 0; j < n; j++ {
					if j != i && done&(1<<uint(j)) == 0 && evs[j].Resp < evs[i].Inv {
						minimal = false
					}
				}
				if !minimal {
					continue
				}
				m2 := m.clone()
				if applyModel(m2, evs[i].Op) != evs[i].Res {
					continue
				}
				if rec2(done|1<<uint(i), m2) {
					return true
				}
			}
			memo[mk] = true
			return false
		}
		okResp = rec2(0, init)
		if okResp {
			kind = "final-state"
		}
		var ops []string
		for _, e := range evs {
			ops = append(ops, e.Op.Kind)
		}
		sort.Strings(ops)
		v = append(v, mc.Viol{Key: "not-linearizable:" + kind + ":" + strings.Join(ops, "+") + ":upgrades=" + w.sc.Upgrades,
			Desc: fmt.Sprintf("no sequential order consistent with real time explains the history (%s): events %s ; final store %s",
				kind, strings.Join(w.describeEvents(), " | "), saveFinal)})
	}
	return v
}

// precedenceKey: which operations finished before which others began (part of the state
// key, because the linearizability oracle judges the history, not only the state).
func (w *world) precedenceKey() string {
	var sb strings.Builder
	for i, a := range w.events {
		for j, b := range w.events {
			if i != j && a.Resp >= 0 && a.Resp < b.Inv {
				fmt.Fprintf(&sb, "%d<%d,", i, j)
			}
		}
	}
	return sb.String()
}
