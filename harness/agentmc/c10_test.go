package main

// C10 — the agent never wedges: deadlock oracle over all schedules.

import (
	"fmt"
	"strings"

	mc "github.com/whawty/auth/internal/verifmc"
)

func init() {
	props["C10"] = &propSpec{scenarios: c10Scenarios, harness: c10Harness, modes: c10Modes}
}

var stdUsers = []userSpec{
	{Name: "root", Pw: "rootpw", Set: 1, Admin: true},
	{Name: "u", Pw: "old", Set: 2}, // upgradeable: default is 1
	{Name: "v", Pw: "vpw", Set: 1}, // up to date
}

func c10Scenarios(thorough bool) []*scenario {
	var out []*scenario
	upgrades := []string{"", "local", "remote-ok", "remote-4xx", "remote-unreachable", "remote-stall"}
	hooks := []string{"", "hang"}
	caps := []int{1, 2}
	for _, k := range caps {
		for _, up := range upgrades {
			for _, hk := range hooks {
				if hk == "hang" && k == 2 && !thorough {
					continue
				}
				if k == 2 && !thorough && (up == "remote-4xx" || up == "remote-unreachable" || up == "remote-ok") {
					continue // the K=2 remote variants differ from K=1 only in queue depth: thorough tier
				}
				// three clients: a writer, a login of the upgradeable user, a mixed client
				cl := [][]cop{
					{{Kind: "update", User: "v", Pw: "n1"}},
					{{Kind: "auth", User: "u", Pw: "old"}},
					{{Kind: "update", User: "u", Pw: "n2"}, {Kind: "auth", User: "u", Pw: "old"}},
				}
				if hk != "" && !thorough {
					// hook processes and their timers multiply the state space: two clients
					cl = [][]cop{
						{{Kind: "update", User: "v", Pw: "n1"}, {Kind: "auth", User: "u", Pw: "old"}},
						{{Kind: "update", User: "u", Pw: "n2"}},
					}
				}
				out = append(out, &scenario{Name: fmt.Sprintf("scaled-k%d-up[%s]-hooks[%s]", k, up, hk), Upgrades: up, Hooks: hk, CapLimit: k, Default: 1, Users: stdUsers, Clients: cl})
			}
		}
		// management mix
		if k == 2 && !thorough {
			continue
		}
		out = append(out, &scenario{Name: fmt.Sprintf("scaled-k%d-mgmt-local", k), Upgrades: "local", CapLimit: k, Default: 1, Users: stdUsers, Clients: [][]cop{
			{{Kind: "add", User: "w", Pw: "wpw"}, {Kind: "list"}},
			{{Kind: "setadmin", User: "v", Admin: true}, {Kind: "remove", User: "v"}},
			{{Kind: "auth", User: "u", Pw: "old"}, {Kind: "auth", User: "u", Pw: "bad"}},
		}})
	}
	// a login-triggered local upgrade that fails (the password does not meet the policy any more):
	// the failed internal request must not cost the dispatcher anything
	out = append(out, &scenario{Name: "scaled-k1-up[local]-upgrade-refused-by-policy", Upgrades: "local", Policy: "score >= 3", CapLimit: 1, Default: 1, Users: stdUsers, Clients: [][]cop{
		{{Kind: "auth", User: "u", Pw: "old"}, {Kind: "list"}},
		{{Kind: "auth", User: "v", Pw: "vpw"}},
		{{Kind: "auth", User: "u", Pw: "old"}},
	}})
	// several hook rounds (one client, changes one after the other) with a hook that cannot be
	// started, fails, or hangs: after every round the hooks loop must be back at its loop head
	for _, hk := range []string{"nostart", "fail", "hang"} {
		if hk != "nostart" && !thorough {
			continue
		}
		out = append(out, &scenario{Name: fmt.Sprintf("scaled-k1-three-rounds-hooks[%s]", hk), Upgrades: "", Hooks: hk, CapLimit: 1, Default: 1, Users: stdUsers, Clients: [][]cop{
			{{Kind: "update", User: "v", Pw: "n1"}, {Kind: "update", User: "v", Pw: "n2"}, {Kind: "update", User: "v", Pw: "n3"}, {Kind: "auth", User: "v", Pw: "n3"}}}})
	}
	// many successful logins of upgradeable users while the upgrade master stalls: every
	// queue of the remote-upgrade path (upgrade queue, in-flight limiter) fills up
	for _, k := range caps {
		for _, up := range []string{"remote-stall", "remote-ok", "local"} {
			if k == 2 && !thorough {
				continue
			}
			var cl [][]cop
			for i := 0; i < 3+2*k; i++ {
				cl = append(cl, []cop{{Kind: "auth", User: "u", Pw: "old"}})
			}
			cl = append(cl, []cop{{Kind: "list"}})
			out = append(out, &scenario{Name: fmt.Sprintf("scaled-k%d-up[%s]-many-logins", k, up), Upgrades: up, CapLimit: k, Default: 1, Users: stdUsers, Clients: cl, NoUpgradeEffect: true})
		}
	}
	{
		var cl [][]cop
		for i := 0; i < 24; i++ {
			cl = append(cl, []cop{{Kind: "auth", User: "u", Pw: "old"}})
		}
		cl = append(cl, []cop{{Kind: "list"}})
		out = append(out, &scenario{Name: "truecap-up[remote-stall]-24-logins", Upgrades: "remote-stall", Default: 1, Users: stdUsers, Clients: cl})
	}
	// true capacities: 11 identical updaters (one more than the queue holds) + logins
	for _, up := range []string{"local", "", "remote-stall"} {
		var cl [][]cop
		for i := 0; i < 11; i++ {
			cl = append(cl, []cop{{Kind: "update", User: "v", Pw: "n1"}})
		}
		cl = append(cl, []cop{{Kind: "auth", User: "u", Pw: "old"}})
		if thorough {
			cl = append(cl, []cop{{Kind: "auth", User: "u", Pw: "old"}})
		}
		out = append(out, &scenario{Name: fmt.Sprintf("truecap-up[%s]", up), Upgrades: up, Default: 1, Users: stdUsers, Clients: cl})
	}
	return out
}

func c10Modes(sc *scenario, thorough bool) []mc.Options {
	var out []mc.Options
	if strings.Contains(sc.Name, "many-logins") {
		// identical clients are only reduced by symmetry while unstarted: bounded search
		b := 2
		if thorough {
			b = 3
		}
		for order := 0; order < 4; order++ {
			out = append(out, mc.Options{Bound: b, AllCost: true, Order: order, MaxSteps: 4000})
		}
		return out
	}
	if strings.HasPrefix(sc.Name, "truecap") {
		b := 1
		if thorough {
			b = 2
		}
		for order := 0; order < 4; order++ {
			out = append(out, mc.Options{Bound: b, AllCost: true, Order: order, MaxSteps: 4000})
		}
		return out
	}
	// full reachability with state-key pruning, cross-checked by an un-pruned
	// deviation-bounded search under the four canonical orders
	// (hook processes with their kill timers multiply the reachable states beyond what a
	// quick run can close; those scenarios get the full search in the thorough tier only)
	if sc.Hooks == "" || thorough {
		out = append(out, mc.Options{Bound: -1, Prune: true, MaxSteps: 4000})
	}
	b := 2
	if thorough {
		b = 3
	}
	for order := 0; order < 4; order++ {
		out = append(out, mc.Options{Bound: b, AllCost: true, Order: order, MaxSteps: 4000})
	}
	return out
}

func c10Harness(sc *scenario) mc.Harness {
	root := rootBody(sc)
	if strings.HasPrefix(sc.Name, "truecap") || strings.Contains(sc.Name, "many-logins") {
		// identical updaters form one symmetry class
		root = func() {
			rootBodyWith(sc, func(i int, ops []cop) string {
				if len(ops) == 1 && ops[0].Kind == "update" {
					return "updater"
				}
				if len(ops) == 1 && ops[0].Kind == "auth" {
					return "login"
				}
				return ""
			})()
		}
	}
	return mc.Harness{
		Name: sc.Name,
		Root: root,
		Key:  harnessKey,
		Final: func(s *mc.Sched, out mc.Outcome) []mc.Viol {
			return c10Final(s, out)
		},
		Observe: observeTerminal,
	}
}

func c10Final(s *mc.Sched, out mc.Outcome) []mc.Viol {
	w := W
	var v []mc.Viol
	if w.startErr != nil {
		return []mc.Viol{{Key: "agent-start-failed", Desc: w.startErr.Error()}}
	}
	switch out {
	case mc.Panicked:
		pv, stk := s.PanicInfo()
		v = append(v, mc.Viol{Key: "panic", Desc: fmt.Sprintf("a thread of the agent panicked: %v\n%s", pv, stk)})
	case mc.Deadlock:
		site := "?"
		var blocked []string
		for _, t := range s.Threads() {
			if t.Done() {
				continue
			}
			if strings.Contains(t.Name, "store.go") && !strings.Contains(t.Name, "client") && !t.AtHome() && site == "?" {
				site = t.PendingSite()
			}
			blocked = append(blocked, t.Name+" "+t.Pending())
		}
		v = append(v, mc.Viol{Key: "deadlock:dispatcher-blocked-at:" + site,
			Desc: fmt.Sprintf("no thread can make progress while requests are unanswered; events: %s; threads: %s", strings.Join(w.describeEvents(), " | "), strings.Join(blocked, " | "))})
	case mc.Quiescent:
		// every request answered; the dispatcher (and the hooks loop) are back at their
		// loop heads, i.e. never left waiting for a hook or the upgrade master
		for _, e := range w.events {
			if e.Resp < 0 {
				v = append(v, mc.Viol{Key: "unanswered-request", Desc: fmt.Sprintf("%v", e)})
			}
		}
		for _, t := range s.Threads() {
			if t.Done() || !t.Daemon {
				continue
			}
			if (t.Site == dispatcherSite() || t.Site == hooksSite()) && !t.AtHome() {
				v = append(v, mc.Viol{Key: "daemon-not-idle:" + t.Site, Desc: fmt.Sprintf("at quiescence %s is blocked at %s", t.Name, t.Pending())})
			}
		}
	}
	return v
}

// observeTerminal: per-client results (sorted by client) + final store digest.
func observeTerminal(s *mc.Sched, out mc.Outcome) string {
	w := W
	if w == nil {
		return out.String()
	}
	res := make(map[int][]string)
	for _, e := range w.events {
		res[e.Client] = append(res[e.Client], e.Res)
	}
	var parts []string
	for i := 0; i < len(w.sc.Clients); i++ {
		parts = append(parts, fmt.Sprintf("c%d=%v", i, res[i]))
	}
	return out.String() + " " + strings.Join(parts, " ") + " store=" + dirDigest(w.dirA)
}
