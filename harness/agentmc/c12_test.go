package main

// C12 — hash upgrades preserve the password, converge, and can be switched off.
// Agent level: every schedule of single-client login sequences through every frontend,
// for every (record parameter set, configured default) pair, upgrade modes off / local /
// remote (in-process master), with and without a password policy.

import (
	"bytes"
	"encoding/json"
	"fmt"
	"net/http/httptest"
	"os"
	"path/filepath"
	"strings"
	"syscall"

	mc "github.com/whawty/auth/internal/verifmc"
	"github.com/whawty/auth/internal/verifmc/vexec"
	"github.com/whawty/auth/internal/verifmc/vhttp"
	"github.com/whawty/auth/internal/verifx"
)

func init() {
	props["C12"] = &propSpec{scenarios: c12Scenarios, harness: c12Harness, modes: c12Modes}
}

var c12Users = []userSpec{
	{Name: "root", Pw: "rootpw", Set: 1, Admin: true},
	{Name: "u1", Pw: "pw-one", Set: 1, Aux: "aux u1\n"},
	{Name: "u2", Pw: "pw-two", Set: 2, Aux: "aux u2 line1\nline2 no newline"},
	{Name: "u3", Pw: "pw-three", Set: 3, Admin: true, Aux: "\x00bin\n"},
}

func c12Scenarios(thorough bool) []*scenario {
	var out []*scenario
	vias := []string{"", "sasl", "ldap", "basic", "api-auth", "api-update-oldpw"}
	for _, d := range []uint{1, 2, 3} {
		for _, mode := range []string{"", "local"} {
			for _, via := range vias {
				if !thorough && via != "" && d == 3 {
					continue
				}
				var ops []cop
				for _, u := range c12Users[1:] {
					ops = append(ops, cop{Kind: "auth", User: u.Name, Pw: u.Pw, Via: via})
				}
				ops = append(ops, cop{Kind: "auth", User: "u1", Pw: "wrong", Via: via}, cop{Kind: "auth", User: "u2", Pw: "pw-two", Via: via})
				out = append(out, &scenario{Name: fmt.Sprintf("logins-default%d-up[%s]-via[%s]", d, mode, via), Upgrades: mode, Hooks: "fast", Default: d, Users: c12Users, Clients: [][]cop{ops}})
			}
			// wrong passwords only
			var bad []cop
			for _, u := range c12Users[1:] {
				bad = append(bad, cop{Kind: "auth", User: u.Name, Pw: "not-" + u.Pw}, cop{Kind: "auth", User: u.Name, Pw: ""})
			}
			out = append(out, &scenario{Name: fmt.Sprintf("wrong-only-default%d-up[%s]", d, mode), Upgrades: mode, Hooks: "fast", Default: d, Users: c12Users, Clients: [][]cop{bad}})
		}
	}
	// policy: a weak password is never re-stored by an upgrade, a strong one is
	pol := []userSpec{{Name: "root", Pw: "rootpw", Set: 1, Admin: true}, {Name: "weak", Pw: "a", Set: 2, Aux: "x\n"}, {Name: "strong", Pw: "xK9#mQ2$vL7@pR4!nW8", Set: 2, Aux: "y\n"}}
	out = append(out, &scenario{Name: "policy-score3-local", Upgrades: "local", Hooks: "fast", Default: 1, Policy: "score >= 3", Users: pol,
		Clients: [][]cop{{{Kind: "auth", User: "weak", Pw: "a"}, {Kind: "auth", User: "strong", Pw: "xK9#mQ2$vL7@pR4!nW8"}}}})
	// two concurrent logins of the same upgradeable user
	out = append(out, &scenario{Name: "two-logins-same-user-local", Upgrades: "local", Hooks: "fast", Default: 1, Users: c12Users,
		Clients: [][]cop{{{Kind: "auth", User: "u2", Pw: "pw-two"}}, {{Kind: "auth", User: "u2", Pw: "pw-two"}, {Kind: "auth", User: "u2", Pw: "x"}}}})
	// the default changes while the agent runs: a record that was upgraded (or is waiting for its
	// upgrade) becomes upgradeable again and the next login on the idle agent must converge again
	for _, d2 := range []uint{3, 2} {
		cfgs := []cfgSpec{{Kind: "valid", Default: 1, Dir: "A"}, {Kind: "valid", Default: d2, Dir: "A"}}
		who := userSpec{Name: "u2", Pw: "pw-two"}
		if d2 == 2 {
			who = userSpec{Name: "u3", Pw: "pw-three"}
		}
		out = append(out, &scenario{Name: fmt.Sprintf("default-changes-to-%d-local", d2), Upgrades: "local", Hooks: "fast", Default: 1, Users: c12Users, Cfgs: cfgs,
			Clients: [][]cop{{{Kind: "auth", User: who.Name, Pw: who.Pw}, {Kind: "sighup", Cfg: 1}, {Kind: "await-cfg", Cfg: 1}, {Kind: "auth", User: who.Name, Pw: who.Pw}}}})
		if thorough {
			out = append(out, &scenario{Name: fmt.Sprintf("default-changes-to-%d-all-users-local", d2), Upgrades: "local", Hooks: "fast", Default: 1, Users: c12Users, Cfgs: cfgs,
				Clients: [][]cop{{{Kind: "auth", User: "u2", Pw: "pw-two"}, {Kind: "auth", User: "u3", Pw: "pw-three"}, {Kind: "sighup", Cfg: 1}, {Kind: "await-cfg", Cfg: 1},
					{Kind: "auth", User: "u2", Pw: "pw-two"}, {Kind: "auth", User: "u3", Pw: "pw-three"}, {Kind: "auth", User: "u1", Pw: "pw-one"}}}})
		}
	}
	// remote mode with an in-process master
	out = append(out, &scenario{Name: "remote-master-default1", Upgrades: "remote-master", Default: 1, Users: c12Users,
		Clients: [][]cop{{{Kind: "auth", User: "u2", Pw: "pw-two"}, {Kind: "auth", User: "u3", Pw: "wrong"}, {Kind: "auth", User: "u1", Pw: "pw-one"}}}})
	// the master is unreachable for the first upgrade attempt(s) and comes back: the next login
	// on the then idle agent must get its record upgraded on the master (the in-flight limiter
	// of the remote path is scaled to one slot, as the queues of C10 are)
	out = append(out, &scenario{Name: "remote-master-after-outage", Upgrades: "remote-master", Default: 1, CapLimit: 1, Users: c12Users,
		Clients: [][]cop{{{Kind: "auth", User: "u2", Pw: "pw-two"}, {Kind: "await-idle"}, {Kind: "auth", User: "u2", Pw: "pw-two"}, {Kind: "await-idle"},
			{Kind: "auth", User: "u3", Pw: "pw-three"}}}})
	return out
}

func c12Modes(sc *scenario, thorough bool) []mc.Options {
	out := []mc.Options{{Bound: -1, Prune: true, MaxSteps: 6000}}
	if thorough {
		for order := 0; order < 4; order++ {
			out = append(out, mc.Options{Bound: 2, AllCost: true, Order: order, MaxSteps: 6000})
		}
	}
	return out
}

type c12state struct {
	initial verifx.Snapshot
	master  *Store
	mdir    string
	minit   verifx.Snapshot
}

var c12s *c12state

func c12Harness(sc *scenario) mc.Harness {
	inner := rootBody(sc)
	root := inner
	if sc.Upgrades == "remote-master" {
		root = func() {
			// the master: a second agent (local upgrades) over a copy of the store, reached
			// through its real HTTP update handler
			w0 := newWorld(sc)
			mroot := filepath.Join(scratchRoot(), "master")
			os.RemoveAll(mroot)
			mdir := filepath.Join(mroot, "store")
			must(os.MkdirAll(mdir, 0700))
			copyDir(w0.dirA, mdir)
			mcfg := filepath.Join(mroot, "store.yaml")
			must(os.WriteFile(mcfg, []byte(verifx.CheapConfigYAML(mdir, sc.Default)), 0600))
			ms, err := NewStore(mcfg, "local", "", "", "")
			must(err)
			sessions, err := NewWebSessionFactory(600e9)
			must(err)
			mi := ms.GetInterface()
			c12s = &c12state{master: mi, mdir: mdir, minit: verifx.Snap(mdir)}
			outage := 0
			if strings.Contains(sc.Name, "after-outage") {
				outage = 1
			}
			vhttp.GetWorld().Master = func(req *vhttp.Request) (*vhttp.Response, error) {
				if outage > 0 {
					outage--
					return nil, &os.PathError{Op: "dial", Path: "master.invalid", Err: syscall.ECONNREFUSED}
				}
				rec := httptest.NewRecorder()
				handleWebUpdate(mi, sessions, rec, req)
				return rec.Result(), nil
			}
			sc2 := *sc
			sc2.Upgrades = "remote-ok-custom"
			rootBodyWith(&sc2, nil)()
			c12s.initial = verifx.Snap(W.dirA)
		}
	} else {
		root = func() {
			inner()
			c12s = &c12state{initial: verifx.Snap(W.dirA)}
		}
	}
	return mc.Harness{
		Name: sc.Name,
		Root: root,
		Key: func() string {
			k := harnessKey()
			if c12s != nil && c12s.mdir != "" {
				k += "|M:" + dirDigest(c12s.mdir)
			}
			return k
		},
		Priority: hookFamilyPriority(sc),
		Final: func(s *mc.Sched, out mc.Outcome) []mc.Viol {
			v := c10Final(s, out)
			if out == mc.Quiescent && W.startErr == nil {
				v = append(v, c12Final(s)...)
			}
			return v
		},
		Observe: observeTerminal,
	}
}

func recordInfo(content string) (set string, aux string) {
	first, rest, _ := strings.Cut(content, "\n")
	f := strings.SplitN(first, ":", 4)
	if len(f) == 4 {
		set = f[2]
	}
	return set, rest
}

func c12Final(s *mc.Sched) []mc.Viol {
	w := W
	sc := w.sc
	var v []mc.Viol
	ctx := "events: " + strings.Join(w.describeEvents(), " | ")
	logged := map[string]bool{}
	loggedEver := map[string]bool{}
	finalDef := sc.Default
	for _, e := range w.events {
		if e.Op.Kind == "await-cfg" {
			// only logins under the configuration in effect at the end count for convergence
			logged = map[string]bool{}
			finalDef = sc.Cfgs[e.Op.Cfg].Default
		}
		if e.Op.Kind != "auth" {
			continue
		}
		user := e.Op.User
		for _, u := range sc.Users {
			if u.Name == user && u.Pw == e.Op.Pw {
				logged[user] = true
				loggedEver[user] = true
				// the frontend must have accepted
				if !strings.HasPrefix(e.Res, "true") {
					v = append(v, mc.Viol{Key: "right-login-refused:" + e.Op.Via, Desc: fmt.Sprintf("%v -> %s; %s", e.Op, e.Res, ctx)})
				}
			}
		}
	}
	check := func(label, dir string, initial verifx.Snapshot, mode string, def uint, policy string) {
		final := verifx.Snap(dir)
		for _, u := range sc.Users {
			ext := ".user"
			if u.Admin {
				ext = ".admin"
			}
			fn := u.Name + ext
			ini, ok1 := initial[fn]
			fin, ok2 := final[fn]
			if !ok1 || !ok2 {
				v = append(v, mc.Viol{Key: "record-missing-or-renamed:" + label, Desc: fmt.Sprintf("file %s initial=%v final=%v; %s", fn, ok1, ok2, ctx)})
				continue
			}
			// (when the default changed during the run, a record that was logged in under the earlier
			// default as well may have been rewritten twice and end under its initial set)
			wantUpgrade := mode == "local" && logged[u.Name] && (u.Set != def || len(sc.Cfgs) > 0 && loggedEver[u.Name])
			if wantUpgrade && policy != "" && u.Name == "weak" {
				wantUpgrade = false
			}
			if !wantUpgrade {
				if ini != fin {
					k := "record-rewritten-without-upgrade"
					if mode == "" {
						k = "store-modified-with-upgrades-off"
					} else if !logged[u.Name] {
						k = "record-rewritten-without-successful-login"
					} else if u.Set == def {
						k = "up-to-date-record-rewritten"
					} else if policy != "" {
						k = "policy-failing-password-restored"
					}
					v = append(v, mc.Viol{Key: k + ":" + label, Desc: fmt.Sprintf("record of %s (set %d, default %d, upgrades %q) changed although no upgrade is due; %s", u.Name, u.Set, def, mode, ctx)})
				}
				continue
			}
			set, aux := recordInfo(fin[1:])
			_, aux0 := recordInfo(ini[1:])
			if set != fmt.Sprint(def) {
				v = append(v, mc.Viol{Key: "upgrade-did-not-happen:" + label, Desc: fmt.Sprintf("after a successful login of %s on an idle agent the record is under set %s, default is %d; %s", u.Name, set, def, ctx)})
			}
			if aux != aux0 {
				v = append(v, mc.Viol{Key: "upgrade-changed-aux:" + label, Desc: fmt.Sprintf("auxiliary data of %s changed by the upgrade: %q -> %q", u.Name, aux0, aux)})
			}
			d := verifx.CheapDir(dir, def)
			ok, adm, upg, _, _ := d.Authenticate(u.Name, u.Pw)
			if !ok || adm != u.Admin || upg {
				v = append(v, mc.Viol{Key: "upgrade-broke-record:" + label, Desc: fmt.Sprintf("after the upgrade %s: password ok=%v admin=%v still-upgradeable=%v; %s", u.Name, ok, adm, upg, ctx)})
			}
			for _, p := range alphabet {
				if p != u.Pw {
					if ok, _, _, _, _ := d.Authenticate(u.Name, p); ok {
						v = append(v, mc.Viol{Key: "upgrade-changed-password:" + label, Desc: fmt.Sprintf("after the upgrade %s authenticates with %q; %s", u.Name, p, ctx)})
					}
				}
			}
		}
		for fn := range final {
			if _, ok := initial[fn]; !ok && !strings.HasPrefix(fn, ".tmp") {
				v = append(v, mc.Viol{Key: "new-file:" + label, Desc: fmt.Sprintf("unexpected file %s; %s", fn, ctx)})
			}
		}
	}
	mode := sc.Upgrades
	if c12s.mdir != "" {
		// (the world of a remote-master scenario runs under the name "remote-ok-custom")
		check("replica", w.dirA, c12s.initial, "", sc.Default, "")
		check("master", c12s.mdir, c12s.minit, "local", sc.Default, "")
	} else {
		check("store", w.dirA, c12s.initial, mode, finalDef, sc.Policy)
	}
	// with upgrades off (and no management request) nothing at all may be mutated or notified
	if mode == "" {
		if xw := vexec.WorldOf(s); len(xw.Starts) != 0 {
			v = append(v, mc.Viol{Key: "hooks-run-with-upgrades-off", Desc: "update hooks were started although authentication must not modify the store; " + ctx})
		}
	}
	return v
}

// frontends used by the C12 scenarios (called from doOp)
func (w *world) viaFrontend(o cop) (string, bool) {
	st := w.iface
	switch o.Via {
	case "basic":
		r := httptest.NewRequest("GET", "/basic-auth", nil)
		r.SetBasicAuth(o.User, o.Pw)
		rec := httptest.NewRecorder()
		handleWebBasicAuth(st, w.sessions(), rec, r)
		return fmt.Sprintf("%v", rec.Code == 200), true
	case "api-auth":
		b, _ := json.Marshal(map[string]string{"username": o.User, "password": o.Pw})
		rec := httptest.NewRecorder()
		handleWebAuthenticate(st, w.sessions(), rec, httptest.NewRequest("POST", "/api/authenticate", bytes.NewReader(b)))
		return fmt.Sprintf("%v", rec.Code == 200), true
	case "api-login":
		// /api/authenticate, with the identity sealed into the issued session token read back
		b, _ := json.Marshal(map[string]string{"username": o.User, "password": o.Pw})
		rec := httptest.NewRecorder()
		handleWebAuthenticate(st, w.sessions(), rec, httptest.NewRequest("POST", "/api/authenticate", bytes.NewReader(b)))
		var resp struct {
			Session  string `json:"session"`
			Username string `json:"username"`
			IsAdmin  bool   `json:"admin"`
		}
		json.Unmarshal(rec.Body.Bytes(), &resp) //nolint:errcheck
		if rec.Code != 200 {
			if resp.Session != "" {
				return "false+token", true
			}
			return "false", true
		}
		cs, _, tu, ta := w.sessions().Check(resp.Session)
		return fmt.Sprintf("true/token(%v,%s,%v)/body(%s,%v)", cs == 200, tu, ta, resp.Username, resp.IsAdmin), true
	case "api-update-oldpw":
		b, _ := json.Marshal(map[string]string{"username": o.User, "oldpassword": o.Pw})
		rec := httptest.NewRecorder()
		handleWebUpdate(st, w.sessions(), rec, httptest.NewRequest("POST", "/api/update", bytes.NewReader(b)))
		return fmt.Sprintf("%v", rec.Code == 200), true
	}
	return "", false
}

func (w *world) sessions() *webSessionFactory {
	if w.sess == nil {
		f, err := NewWebSessionFactory(600e9)
		must(err)
		w.sess = f
	}
	return w.sess
}
