package main

// C06 (concurrency part) — "a session token is issued only in response to a successful
// password authentication and names that user and their current admin status", also when
// several logins are in flight on the web listener: every schedule of concurrent
// /api/authenticate requests (administrator, ordinary user, wrong password, unknown user) on one
// store interface is explored; each response and the identity sealed into each issued token is
// compared with the sequential store (the C11 oracle; the store never changes here).

import mc "github.com/whawty/auth/internal/verifmc"

func init() {
	props["C06"] = &propSpec{scenarios: c06Scenarios, harness: c11Harness, modes: c06Modes}
}

func c06Scenarios(thorough bool) []*scenario {
	mk := func(name string, cl ...[]cop) *scenario {
		return &scenario{Name: name, Upgrades: "", CapLimit: 0, Default: 1, Users: c11Users, Clients: cl, Linearize: true}
	}
	lg := func(u, p string) cop { return cop{Kind: "auth", User: u, Pw: p, Via: "api-login"} }
	out := []*scenario{
		mk("admin-vs-wrong-password", []cop{lg("root", "rootpw")}, []cop{lg("u", "x")}),
		mk("admin-vs-user", []cop{lg("root", "rootpw")}, []cop{lg("u", "o")}),
		mk("admin-vs-unknown-vs-user", []cop{lg("root", "rootpw")}, []cop{lg("nobody", "rootpw")}, []cop{lg("v", "vpw")}),
		mk("two-each", []cop{lg("root", "rootpw"), lg("root", "bad")}, []cop{lg("u", "bad"), lg("u", "o")}),
	}
	if thorough {
		out = append(out, mk("four-logins", []cop{lg("root", "rootpw")}, []cop{lg("u", "x")}, []cop{lg("v", "vpw")}, []cop{lg("nobody", "o")}))
	}
	return out
}

func c06Modes(sc *scenario, thorough bool) []mc.Options { return c11Modes(sc, thorough) }
