package main

// C19 — update hooks: no change un-notified, bursts coalesced, only safe files run.
// Timing: every schedule of change notifications against the (virtual) rate-limit and kill
// timers; eligibility: every directory content of the enumeration.

import (
	"fmt"
	"os"
	"path/filepath"
	"sort"
	"strings"
	"syscall"
	"time"

	mc "github.com/whawty/auth/internal/verifmc"
	"github.com/whawty/auth/internal/verifmc/vexec"
	"github.com/whawty/auth/internal/verifmc/vtime"
)

func init() {
	// the agent's own environment may already carry the variable (another instance's hook started
	// this one, a systemd unit sets it, ...): hooks must see this store's directory nevertheless
	os.Setenv("WHAWTY_AUTH_STORE", "/inherited/from/elsewhere") //nolint:errcheck
	props["C19"] = &propSpec{scenarios: c19Scenarios, harness: c19Harness, modes: c19Modes}
}

var c19Users = []userSpec{
	{Name: "root", Pw: "rootpw", Set: 1, Admin: true},
	{Name: "u", Pw: "upw", Set: 1},
	{Name: "v", Pw: "vpw", Set: 1},
}

func c19Scenarios(thorough bool) []*scenario {
	upd := func(u, p string) cop { return cop{Kind: "update", User: u, Pw: p} }
	sleep := func(s int) cop { return cop{Kind: "sleep", Cfg: s} }
	mk := func(name, hooks string, cl ...[]cop) *scenario {
		return &scenario{Name: name, Hooks: hooks, Default: 1, Users: c19Users, Clients: cl}
	}
	out := []*scenario{
		mk("one-change", "fast", []cop{upd("u", "n1")}),
		mk("burst-2", "fast", []cop{upd("u", "n1"), upd("u", "n2")}),
		mk("burst-3", "fast", []cop{upd("u", "n1"), upd("u", "n2"), upd("v", "n3")}),
		mk("burst-4-mixed-ops", "fast", []cop{upd("u", "n1"), {Kind: "add", User: "w", Pw: "wpw"}, {Kind: "setadmin", User: "w", Admin: true}, {Kind: "remove", User: "w"}}),
		mk("two-clients", "fast", []cop{upd("u", "n1"), upd("u", "n2")}, []cop{upd("v", "n3")}),
		mk("spaced-6s", "fast", []cop{upd("u", "n1"), sleep(6), upd("u", "n2")}),
		mk("spaced-5s", "fast", []cop{upd("u", "n1"), sleep(5), upd("u", "n2"), upd("v", "n3")}),
		mk("spaced-4s-then-burst", "fast", []cop{upd("u", "n1"), sleep(4), upd("u", "n2"), sleep(2), upd("v", "n3")}),
		mk("failed-only", "fast", []cop{upd("nobody", "x"), {Kind: "add", User: "u", Pw: "x"}, {Kind: "setadmin", User: "nobody", Admin: true}, {Kind: "auth", User: "u", Pw: "upw"}}),
		mk("failed-and-good", "fast", []cop{upd("nobody", "x"), upd("u", "n1"), {Kind: "add", User: "u", Pw: "x"}}),
		mk("failing-hook", "fail", []cop{upd("u", "n1"), upd("u", "n2")}),
		mk("hanging-hook", "hang", []cop{upd("u", "n1")}),
		mk("hanging-hook-burst", "hang", []cop{upd("u", "n1"), upd("u", "n2")}),
	}
	// queue capacities scaled to 1: a hook caller that does not keep reading notifications while a
	// hook hangs makes the dispatcher wait for the kill timer
	hq := mk("hanging-hook-queue-k1", "hang", []cop{upd("u", "n1"), upd("u", "n2"), upd("v", "n3"), upd("u", "n4")})
	hq.CapLimit = 1
	out = append(out, hq)
	var many []cop
	for i := 0; i < 36; i++ {
		many = append(many, upd("u", fmt.Sprintf("m%d", i)))
	}
	out = append(out, mk("hanging-hook-36-changes-truecap", "hang", many))
	rl := mk("reload-between-changes", "fast", []cop{upd("u", "n1"), {Kind: "sighup", Cfg: 1}, {Kind: "check"}, upd("u", "n2")})
	rl.Cfgs = []cfgSpec{{Kind: "valid", Default: 1, Dir: "A"}, {Kind: "valid", Default: 1, Dir: "B"}}
	out = append(out, rl)
	rl2 := mk("reload-then-change", "fast", []cop{{Kind: "sighup", Cfg: 1}, {Kind: "check"}, upd("u", "n2")})
	rl2.Cfgs = rl.Cfgs
	out = append(out, rl2)
	if thorough {
		out = append(out,
			mk("burst-5", "fast", []cop{upd("u", "n1"), upd("u", "n2"), upd("v", "n3"), upd("u", "n4"), upd("v", "n5")}),
			mk("three-clients", "fast", []cop{upd("u", "n1")}, []cop{upd("v", "n2")}, []cop{upd("u", "n3"), upd("v", "n4")}),
			mk("hanging-hook-3", "hang", []cop{upd("u", "n1"), sleep(6), upd("u", "n2")}),
		)
	}
	out = append(out, &scenario{Name: "eligibility", Hooks: "eligibility"})
	return out
}

func c19Modes(sc *scenario, thorough bool) []mc.Options {
	if sc.Name == "eligibility" {
		return []mc.Options{{Bound: 0, AllCost: true, MaxSteps: 2000}}
	}
	out := []mc.Options{}
	if strings.Contains(sc.Name, "truecap") || strings.Contains(sc.Name, "queue-k1") {
		b := 1
		if thorough {
			b = 2
		}
		for order := 0; order < 4; order++ {
			out = append(out, mc.Options{Bound: b, AllCost: true, Order: order, MaxSteps: 20000})
		}
		return out
	}
	if !strings.HasPrefix(sc.Hooks, "hang") || thorough || len(sc.Clients[0]) == 1 {
		out = append(out, mc.Options{Bound: -1, Prune: true, MaxSteps: 6000})
	}
	b := 2
	if thorough {
		b = 3
	}
	for order := 0; order < 4; order++ {
		out = append(out, mc.Options{Bound: b, AllCost: true, Order: order, MaxSteps: 6000})
	}
	return out
}

// per-execution monitor state
type c19mon struct {
	lastA, lastB string
	muts         []c19mut
}

type c19mut struct {
	step int
	dir  string
}

var c19m *c19mon

func c19Harness(sc *scenario) mc.Harness {
	if sc.Name == "eligibility" {
		return c19Eligibility(sc)
	}
	root := rootBody(sc)
	return mc.Harness{
		Name: sc.Name,
		Root: func() { c19m = &c19mon{}; root() },
		Key:  harnessKey,
		// hook processes that exit by themselves are modelled as exiting promptly: the
		// goroutines that supervise one hook process (descendants of the hooks loop) are
		// independent of the rest of the agent and are run eagerly.  Hanging hooks are
		// explored without this reduction.
		Priority: hookFamilyPriority(sc),
		// record the step at which a store directory changes (the mutation instant)
		Invariant: func(s *mc.Sched) []mc.Viol {
			w := W
			if w == nil || w.st == nil || c19m == nil {
				return nil
			}
			a := rawDigest(w.dirA)
			if c19m.lastA != "" && a != c19m.lastA {
				c19m.muts = append(c19m.muts, c19mut{s.Steps, w.dirA})
			}
			c19m.lastA = a
			// the agent never waits for a timer: whenever a client request is in flight, some
			// thread (not only the passage of time) must be able to make progress
			onlyTime := len(s.Enabled) > 0
			for _, d := range s.Enabled {
				if !strings.HasPrefix(d, "env:") {
					onlyTime = false
				}
			}
			if onlyTime {
				for _, e := range w.events {
					if e.Resp < 0 && e.Op.Kind != "sleep" && e.Op.Kind != "sighup" {
						return []mc.Viol{{Key: "request-waits-for-a-timer", Desc: fmt.Sprintf("request %v is unanswered and nothing but the passage of time (%v) can make progress: the agent is delayed by a hook; events: %s",
							e.Op, s.Enabled, strings.Join(w.describeEvents(), " | "))}}
					}
				}
			}
			if len(w.sc.Cfgs) > 0 {
				b := rawDigest(w.dirB)
				if c19m.lastB != "" && b != c19m.lastB {
					c19m.muts = append(c19m.muts, c19mut{s.Steps, w.dirB})
				}
				c19m.lastB = b
			}
			return nil
		},
		Final: func(s *mc.Sched, out mc.Outcome) []mc.Viol {
			v := c10Final(s, out)
			if out == mc.Quiescent && W.startErr == nil {
				// the Invariant hook is called before each transition; catch a last change
				(c19Harness(sc)).Invariant(s)
				v = append(v, c19Final(s)...)
			}
			return v
		},
		Observe: func(s *mc.Sched, out mc.Outcome) string {
			xw := vexec.WorldOf(s)
			var rounds []string
			for _, r := range xw.Starts {
				rounds = append(rounds, fmt.Sprintf("+%v", r.VTime))
			}
			return observeTerminal(s, out) + " rounds=" + strings.Join(rounds, ",")
		},
	}
}

func rawDigest(dir string) string {
	ents, _ := os.ReadDir(dir)
	var sb strings.Builder
	for _, e := range ents {
		if e.IsDir() {
			continue
		}
		fi, err := e.Info()
		if err != nil {
			continue
		}
		st, _ := fi.Sys().(*syscall.Stat_t)
		var ino uint64
		if st != nil {
			ino = st.Ino
		}
		fmt.Fprintf(&sb, "%s:%d:%d;", e.Name(), ino, fi.Size())
	}
	return sb.String()
}

// envOf: the value the started program sees (os/exec lets the last duplicate win) and the number
// of entries for the key.
func envOf(r *vexec.StartRec, key string) (string, int) {
	val, n := "", 0
	for _, e := range r.Env {
		if strings.HasPrefix(e, key+"=") {
			val = strings.TrimPrefix(e, key+"=")
			n++
		}
	}
	return val, n
}

func c19Final(s *mc.Sched) []mc.Viol {
	w := W
	var v []mc.Viol
	xw := vexec.WorldOf(s)
	hook := filepath.Join(w.hookDir, "h1")
	var started []*vexec.StartRec
	for _, r := range xw.Starts {
		if r.Path != hook {
			v = append(v, mc.Viol{Key: "unexpected-program-started", Desc: r.String()})
			continue
		}
		if len(r.Args) != 2 || r.Args[1] != "update" {
			v = append(v, mc.Viol{Key: "hook-arguments", Desc: fmt.Sprintf("hook started with arguments %q, want exactly [update]", r.Args[1:])})
		}
		if r.Err == "" {
			started = append(started, r)
		}
	}
	ev := strings.Join(w.describeEvents(), " | ")
	var rs []string
	for _, r := range started {
		st, _ := envOf(r, "WHAWTY_AUTH_STORE")
		rs = append(rs, fmt.Sprintf("round@step%d+%v(store=%s)", r.Step, r.VTime, filepath.Base(st)))
	}
	ctx := fmt.Sprintf("events: %s ; store changes at %v ; hook rounds: %s", ev, c19m.muts, strings.Join(rs, ", "))
	// (a) every change is followed by a hook round started not earlier than the change, with the right store
	for _, m := range c19m.muts {
		ok := false
		var storeSeen []string
		for _, r := range started {
			if r.Step >= m.step {
				st, n := envOf(r, "WHAWTY_AUTH_STORE")
				storeSeen = append(storeSeen, filepath.Base(st))
				if st == m.dir && n >= 1 {
					ok = true
				}
			}
		}
		if !ok {
			k := "change-without-hook-round"
			if len(storeSeen) > 0 {
				k = "hook-round-with-stale-store-dir"
				for _, e := range w.events {
					if e.Op.Kind == "sighup" {
						k = "hook-round-with-stale-store-dir:after-reload"
					}
				}
			}
			v = append(v, mc.Viol{Key: k, Desc: fmt.Sprintf("the change of %s at step %d is not followed by a hook round for that store (later rounds carry %v); %s", filepath.Base(m.dir), m.step, storeSeen, ctx)})
		}
	}
	// (b) failed operations alone trigger nothing: rounds never outnumber changes
	if len(started) > len(c19m.muts) {
		v = append(v, mc.Viol{Key: "hook-round-without-change", Desc: fmt.Sprintf("%d hook rounds for %d store changes; %s", len(started), len(c19m.muts), ctx)})
	}
	if len(c19m.muts) == 0 && len(xw.Starts) > 0 {
		v = append(v, mc.Viol{Key: "hook-round-without-change", Desc: "hooks ran although no operation succeeded; " + ctx})
	}
	// (c) coalescing: any three consecutive rounds span at least the rate-limit interval
	for i := 0; i+2 < len(started); i++ {
		if started[i+2].VTime-started[i].VTime < 5*time.Second {
			v = append(v, mc.Viol{Key: "more-than-two-rounds-per-interval", Desc: fmt.Sprintf("three hook rounds within %v; %s", started[i+2].VTime-started[i].VTime, ctx)})
		}
	}
	// (d) a hanging hook is killed exactly one minute after its start
	if w.sc.Hooks == "hang" {
		for _, r := range started {
			// (virtual time may pass between the start of the process and the start of its
			// supervising goroutine, so the kill happens at start + 1 min or later, never earlier)
			if !r.Killed || r.KillAt-r.VTime < time.Minute || !r.Waited {
				v = append(v, mc.Viol{Key: "hanging-hook-not-killed-after-limit", Desc: fmt.Sprintf("hook started at +%v: killed=%v at +%v, reaped=%v; %s", r.VTime, r.Killed, r.KillAt, r.Waited, ctx)})
			}
		}
	} else {
		for _, r := range started {
			if r.Killed {
				v = append(v, mc.Viol{Key: "fast-hook-killed", Desc: "a hook that exits by itself was killed; " + ctx})
			}
		}
	}
	_ = vtime.Elapsed
	return v
}

// ---- eligibility ---------------------------------------------------------------------------

type hookEntry struct {
	name string
	kind string // file | symlink | dir | fifo
	mode os.FileMode
	tgt  string
}

func c19Eligibility(sc *scenario) mc.Harness {
	entries := []hookEntry{
		{"f644", "file", 0644, ""}, {"f755", "file", 0755, ""}, {"f700", "file", 0700, ""}, {"f100", "file", 0100, ""}, {"f010", "file", 0010, ""}, {"f001", "file", 0001, ""}, {"f000", "file", 0, ""},
		{".hidden", "file", 0755, ""}, {"with space", "file", 0755, ""}, {"-dash", "file", 0755, ""},
		{"ln-exec", "symlink", 0, "T/exec"}, {"ln-noexec", "symlink", 0, "T/noexec"}, {"ln-dir", "symlink", 0, "T/dir"}, {"ln-dangling", "symlink", 0, "T/missing"}, {".ln-hidden", "symlink", 0, "T/exec"},
		{"subdir", "dir", 0755, ""}, {"fifo", "fifo", 0755, ""},
	}
	// (the last ones carry the sticky / set-group-id / set-user-id bit: a world-writable directory
	// stays world-writable whatever else is set)
	dirModes := []os.FileMode{0755, 0775, 0777, 0757, 0700, 0702, 0777 | os.ModeSticky, 0755 | os.ModeSticky, 0757 | os.ModeSticky, 0777 | os.ModeSetgid, 0775 | os.ModeSetgid, 0777 | os.ModeSetuid, 0702 | os.ModeSticky | os.ModeSetgid}
	// the variants: every single entry and every pair, under every directory mode
	type variant struct {
		mode os.FileMode
		es   []int
	}
	var variants []variant
	for _, dm := range dirModes {
		variants = append(variants, variant{dm, nil})
		for i := range entries {
			variants = append(variants, variant{dm, []int{i}})
			if dm == 0755 || dm == 0777 {
				for j := i + 1; j < len(entries); j++ {
					variants = append(variants, variant{dm, []int{i, j}})
				}
			}
		}
	}
	variants = append(variants, variant{0755, allIdx(len(entries))})
	cur := 0
	var hdir, tdir string
	h := mc.Harness{Name: "eligibility"}
	h.Root = func() {
		W = nil
		base := filepath.Join(scratchRoot(), "elig")
		os.RemoveAll(base)
		hdir, tdir = filepath.Join(base, "hooks"), filepath.Join(base, "T")
		must(os.MkdirAll(hdir, 0755))
		must(os.MkdirAll(filepath.Join(tdir, "dir"), 0755))
		must(os.WriteFile(filepath.Join(tdir, "exec"), []byte("#!/bin/sh\n"), 0755))
		must(os.WriteFile(filepath.Join(tdir, "noexec"), []byte("#!/bin/sh\n"), 0644))
		vr := variants[cur]
		for _, i := range vr.es {
			e := entries[i]
			p := filepath.Join(hdir, e.name)
			switch e.kind {
			case "file":
				must(os.WriteFile(p, []byte("#!/bin/sh\n"), 0600))
				must(os.Chmod(p, e.mode))
			case "symlink":
				must(os.Symlink(strings.Replace(e.tgt, "T", tdir, 1), p))
			case "dir":
				must(os.Mkdir(p, e.mode))
			case "fifo":
				must(syscall.Mkfifo(p, uint32(e.mode)))
			}
		}
		must(os.Chmod(hdir, vr.mode))
		hc := &HooksCaller{dir: hdir, store: "/the/store"}
		hc.runAllHooks()
	}
	h.Final = func(s *mc.Sched, out mc.Outcome) []mc.Viol {
		var v []mc.Viol
		vr := variants[cur]
		xw := vexec.WorldOf(s)
		got := map[string]bool{}
		for _, r := range xw.Starts {
			if r.Err == "" {
				got[filepath.Base(r.Path)] = true
				if filepath.Dir(r.Path) != hdir {
					v = append(v, mc.Viol{Key: "hook-outside-directory", Desc: r.Path})
				}
				if st, n := envOf(r, "WHAWTY_AUTH_STORE"); st != "/the/store" || n < 1 || len(r.Args) != 2 || r.Args[1] != "update" {
					v = append(v, mc.Viol{Key: "hook-arguments", Desc: fmt.Sprintf("%v env store=%q", r.Args, st)})
				}
			}
		}
		var desc []string
		for _, i := range vr.es {
			e := entries[i]
			desc = append(desc, fmt.Sprintf("%s(%s,%o)", e.name, e.kind, e.mode))
			want := vr.mode.Perm()&02 == 0 && !strings.HasPrefix(e.name, ".")
			switch e.kind {
			case "file":
				want = want && e.mode&0111 != 0
			case "symlink":
				want = want && e.tgt == "T/exec"
			default:
				want = false
			}
			if got[e.name] != want {
				k := "ineligible-hook-executed"
				if want {
					k = "eligible-hook-not-executed"
				}
				v = append(v, mc.Viol{Key: k + ":" + e.kind, Desc: fmt.Sprintf("hooks directory mode %v with entries %v: %s executed=%v, eligible=%v", vr.mode, desc, e.name, got[e.name], want)})
			}
		}
		return v
	}
	h.Observe = func(s *mc.Sched, out mc.Outcome) string {
		xw := vexec.WorldOf(s)
		var g []string
		for _, r := range xw.Starts {
			if r.Err == "" {
				g = append(g, filepath.Base(r.Path))
			}
		}
		sort.Strings(g)
		return fmt.Sprintf("variant %d mode %v: %v", cur, variants[cur].mode, g)
	}
	h.Cleanup = func() { W = nil }
	// the explorer runs one harness; iterate the variants through a wrapper
	eligVariants = len(variants)
	eligSet = func(i int) { cur = i }
	return h
}

var (
	eligVariants int
	eligSet      func(i int)
)

func allIdx(n int) []int {
	out := make([]int, n)
	for i := range out {
		out[i] = i
	}
	return out
}

func hookFamilyPriority(sc *scenario) func(t *mc.Thread) bool {
	if sc.Hooks == "hang" {
		return nil
	}
	return func(t *mc.Thread) bool {
		// strict descendants of the hooks loop (spawned from hooks.go by a thread that was
		// itself spawned from hooks.go)
		for p := t.Parent; p != nil; p = p.Parent {
			if strings.HasPrefix(p.Site, "hooks.go:") && strings.HasPrefix(t.Site, "hooks.go:") {
				return true
			}
		}
		return false
	}
}
