package main

import (
	"encoding/json"
	"fmt"
	"os"
	"sort"
	"strconv"
	"strings"
	"testing"
	"time"

	"github.com/whawty/auth/internal/verifev"
	mc "github.com/whawty/auth/internal/verifmc"
)

// mode = one exploration of one scenario
type mode struct {
	Name string
	Opts mc.Options
}

func modeName(o mc.Options) string {
	switch {
	case o.Prune:
		return fmt.Sprintf("reach-pruned/order%d", o.Order)
	case o.Bound < 0:
		return fmt.Sprintf("unbounded/order%d", o.Order)
	case o.AllCost:
		return fmt.Sprintf("deviations<=%d/order%d", o.Bound, o.Order)
	}
	return fmt.Sprintf("preemptions<=%d/order%d", o.Bound, o.Order)
}

type propSpec struct {
	scenarios func(thorough bool) []*scenario
	harness   func(sc *scenario) mc.Harness
	modes     func(sc *scenario, thorough bool) []mc.Options
}

var props = map[string]*propSpec{}

// TestMC runs scenario(s) of one property: VERIF_MC_PROP=C10 VERIF_MC_SCENARIO=<index|all|list>
func TestMC(t *testing.T) {
	prop := os.Getenv("VERIF_MC_PROP")
	ps := props[prop]
	if ps == nil {
		fmt.Println("unknown VERIF_MC_PROP", prop)
		os.Exit(2)
	}
	ev := verifev.New(prop, "mc-"+os.Getenv("VERIF_MC_SCENARIO"))
	scs := ps.scenarios(ev.Thorough())
	sel := os.Getenv("VERIF_MC_SCENARIO")
	if sel == "list" {
		for i, sc := range scs {
			fmt.Printf("SCENARIO %d %s\n", i, sc.Name)
		}
		return
	}
	if rp := os.Getenv("VERIF_REPLAY"); rp != "" {
		replay(ps, scs, rp)
		return
	}
	var todo []*scenario
	if sel == "" || sel == "all" {
		todo = scs
	} else {
		i, err := strconv.Atoi(sel)
		if err != nil || i < 0 || i >= len(scs) {
			fmt.Println("bad VERIF_MC_SCENARIO", sel)
			os.Exit(2)
		}
		todo = []*scenario{scs[i]}
	}
	deadline := time.Time{}
	if d, err := strconv.Atoi(os.Getenv("VERIF_MC_DEADLINE_S")); err == nil && d > 0 {
		deadline = time.Now().Add(time.Duration(d) * time.Second)
	}
	var rules []string
	for _, sc := range todo {
		alphabet = sc.passwords()
		h := ps.harness(sc)
		if h.Cleanup == nil {
			// no state of one execution may be visible to the oracles of the next one
			h.Cleanup = func() { W, c19m, c12s = nil, nil, nil }
		}
		var pruned, full map[string]int
		nvar := 1
		if sc.Name == "eligibility" {
			nvar = eligVariants
		}
		for vi := 0; vi < nvar; vi++ {
			if sc.Name == "eligibility" {
				eligSet(vi)
			}
			for _, o := range ps.modes(sc, ev.Thorough()) {
				o.Deadline = deadline
				o.Report = reporter(ev, sc, modeName(o), o.Order)
				t0 := time.Now()
				st := mc.Explore(h, o)
				ev.Add("evaluations", st.Executions)
				ev.Add("transitions", st.Transitions)
				ev.Add("states", st.States)
				ev.Add("traces_validated_against_impl", st.Executions) // every execution runs the real (rewritten) agent code
				for k := range st.Terminal {
					ev.Distinct(sc.Name + "|" + k)
				}
				if st.Restarted {
					ev.Note("scenario %s mode %s: a second thread entered the store package; file operations were explored as scheduling points", sc.Name, modeName(o))
				}
				if !st.Complete {
					ev.NotExhaustive(fmt.Sprintf("scenario %s mode %s stopped by its deadline/step horizon after %d executions", sc.Name, modeName(o), st.Executions))
				}
				if o.Prune {
					pruned = st.Terminal
				} else if o.Bound < 0 {
					full = st.Terminal
				}
				if vi == 0 || st.Violations > 0 {
					fmt.Printf("MC %s %s %s: executions=%d transitions=%d states=%d cuts=%d maxdepth=%d terminal=%d outcomes=%v complete=%v viol=%d %.1fs\n",
						prop, sc.Name, modeName(o), st.Executions, st.Transitions, st.States, st.Cuts, st.MaxDepth, len(st.Terminal), st.Outcomes, st.Complete, st.Violations, time.Since(t0).Seconds())
				}
				if vi == 0 {
					rules = append(rules, fmt.Sprintf("%s[%s]", sc.Name, modeName(o)))
				}
			}
		}
		// guard against a wrong state key: pruned and un-pruned unbounded runs of the same
		// scenario must reach the same set of terminal observations
		if pruned != nil && full != nil {
			for k := range full {
				if pruned[k] == 0 {
					fmt.Fprintf(os.Stderr, "state-key pruning is unsound for scenario %s: terminal observation %q reached only without pruning\n", sc.Name, k)
					os.Exit(2)
				}
			}
			ev.Note("scenario %s: pruned and un-pruned unbounded explorations agree on %d terminal observations", sc.Name, len(full))
		}
		ev.Sample(map[string]any{"scenario": sc.Name, "upgrades": sc.Upgrades, "hooks": sc.Hooks, "caplimit": sc.CapLimit, "clients": fmt.Sprint(sc.Clients)})
	}
	sort.Strings(rules)
	ev.Rule = "every schedule of the rewritten agent under the controlled scheduler within the stated bound, per scenario[mode]: " + strings.Join(rules, ", ") +
		"; distinct = distinct terminal observations (per-client results + final store digest)"
	if W != nil {
		os.RemoveAll(scratchRoot())
	}
	ev.Finish()
}

func replay(ps *propSpec, scs []*scenario, path string) {
	b, err := os.ReadFile(path)
	must(err)
	var f struct {
		Replay replayFile `json:"replay"`
	}
	must(json.Unmarshal(b, &f))
	for _, sc := range scs {
		if sc.Name != f.Replay.Scenario {
			continue
		}
		alphabet = sc.passwords()
		h := ps.harness(sc)
		v, trace, out := mc.Replay(h, mc.Options{Order: f.Replay.Order}, f.Replay.Choices)
		fmt.Println("REPLAY outcome:", out)
		for _, l := range trace {
			fmt.Println("  ", l)
		}
		for _, x := range v {
			fmt.Printf("V|%s|%s|%s\n", x.Key, path, strings.ReplaceAll(x.Desc, "\n", " "))
		}
		ev := verifev.New(os.Getenv("VERIF_MC_PROP"), "replay")
		ev.Add("evaluations", 1)
		ev.Finish()
		return
	}
	fmt.Println("scenario of replay file not found:", f.Replay.Scenario)
	os.Exit(2)
}
