package main

// C18 (reload part) — on a reload signal the agent switches to the new configuration only
// if it loads and its directory passes the consistency check; otherwise it keeps the
// complete previous configuration, never a mixture; requests in flight are answered.

import (
	"fmt"
	"os"
	"sort"
	"strings"

	mc "github.com/whawty/auth/internal/verifmc"
	"github.com/whawty/auth/internal/verifx"
)

func init() {
	props["C18"] = &propSpec{scenarios: c18Scenarios, harness: c18Harness, modes: c18Modes}
}

var c18Users = []userSpec{
	{Name: "root", Pw: "rootpw", Set: 1, Admin: true},
	{Name: "u", Pw: "pwA", Set: 1},
}

var c18Cfgs = []cfgSpec{
	{Kind: "valid", Default: 1, Dir: "A"},                // 0: initial
	{Kind: "valid", Default: 2, Dir: "B"},                // 1: everything different
	{Kind: "unparsable", Default: 2, Dir: "B"},           // 2
	{Kind: "badcheck", Default: 2, Dir: "B"},             // 3: loads, but the directory fails the check
	{Kind: "same", Default: 1, Dir: "A"},                 // 4
	{Kind: "valid", Default: 3, Dir: "A"},                // 5: same directory, other default
	{Kind: "samedir-sets-removed", Default: 2, Dir: "A"}, // 6: same directory, loads, but the check fails
}

func c18Scenarios(thorough bool) []*scenario {
	a := func(u, p string) cop { return cop{Kind: "auth", User: u, Pw: p} }
	upd := func(u, p string) cop { return cop{Kind: "update", User: u, Pw: p} }
	hup := func(i int) cop { return cop{Kind: "sighup", Cfg: i} }
	mk := func(name string, cl ...[]cop) *scenario {
		return &scenario{Name: name, Default: 1, Users: c18Users, Clients: cl, Cfgs: c18Cfgs, Hooks: "fast"}
	}
	out := []*scenario{
		mk("switch-valid", []cop{a("u", "pwA"), upd("u", "n"), a("u", "n")}, []cop{hup(1)}),
		mk("unparsable", []cop{a("u", "pwA"), {Kind: "add", User: "w", Pw: "x"}}, []cop{hup(2)}),
		mk("badcheck", []cop{upd("u", "n"), a("u", "n")}, []cop{hup(3)}),
		mk("switch-and-back", []cop{a("u", "pwA"), a("u", "pwB")}, []cop{hup(1), hup(4)}),
		mk("bad-then-good", []cop{upd("u", "n")}, []cop{hup(2), hup(1)}),
		mk("good-then-bad", []cop{upd("u", "n"), a("u", "pwB")}, []cop{hup(1), hup(3)}),
		mk("other-default-same-dir", []cop{upd("u", "n"), a("u", "n")}, []cop{hup(5)}),
		mk("no-clients-three-signals", []cop{{Kind: "check"}}, []cop{hup(1), hup(2), hup(5)}),
		mk("same-dir-failing-check", []cop{a("u", "pwA"), upd("u", "n"), a("u", "n")}, []cop{hup(6)}),
		mk("same-dir-failing-check-then-good", []cop{a("u", "pwA")}, []cop{hup(6), hup(5)}),
	}
	// the same with local hash upgrades (client updates and internal upgrade requests then share a
	// queue): requests in flight while the signal is handled are answered normally
	for _, sc := range []*scenario{
		mk("switch-valid[local]", []cop{upd("u", "n"), a("u", "n")}, []cop{upd("root", "r2")}, []cop{hup(1)}),
		mk("other-default-same-dir[local]", []cop{upd("u", "n"), a("u", "n")}, []cop{a("u", "pwA")}, []cop{hup(5)}),
	} {
		sc.Upgrades = "local"
		out = append(out, sc)
	}
	if thorough {
		out = append(out,
			mk("three-signals", []cop{a("u", "pwB"), a("u", "pwA")}, []cop{hup(1), hup(3), hup(2)}),
			mk("two-clients-two-signals", []cop{upd("u", "n")}, []cop{a("u", "pwA"), a("u", "n")}, []cop{hup(1), hup(5)}),
		)
	}
	return out
}

func c18Modes(sc *scenario, thorough bool) []mc.Options {
	out := []mc.Options{{Bound: -1, Prune: true, MaxSteps: 6000}}
	b := 2
	if thorough {
		b = 3
	}
	for order := 0; order < 4; order++ {
		out = append(out, mc.Options{Bound: b, AllCost: true, Order: order, MaxSteps: 6000})
	}
	return out
}

type c18cfgView struct {
	dir string
	def uint
}

func (w *world) cfgView(i int) c18cfgView {
	c := w.sc.Cfgs[i]
	d := w.dirA
	if c.Dir == "B" {
		d = w.dirB
	}
	return c18cfgView{d, c.Default}
}

// installed lists the configurations written to the file so far (in order).
func (w *world) installedCfgs() []int {
	out := []int{0}
	for _, e := range w.events {
		if e.Op.Kind == "sighup" {
			out = append(out, e.Op.Cfg)
		}
	}
	return out
}

func c18Harness(sc *scenario) mc.Harness {
	root := rootBody(sc)
	return mc.Harness{
		Name:     sc.Name,
		Root:     root,
		Key:      harnessKey,
		Priority: hookFamilyPriority(sc),
		// never a mixture: at every scheduling point the effective configuration is exactly
		// one of the complete valid configurations installed so far
		Invariant: func(s *mc.Sched) []mc.Viol {
			w := W
			if w == nil || w.st == nil {
				return nil
			}
			var ids []int
			for id := range w.st.dir.Params {
				ids = append(ids, int(id))
			}
			sort.Ints(ids)
			eff := c18cfgView{w.st.dir.BaseDir, w.st.dir.Default}
			okCfg := false
			okHook := false
			for _, i := range w.installedCfgs() {
				k := w.sc.Cfgs[i].Kind
				if k != "valid" && k != "same" {
					continue
				}
				cv := w.cfgView(i)
				if cv == eff {
					okCfg = true
				}
				if w.st.hooks.store == cv.dir {
					okHook = true
				}
			}
			var v []mc.Viol
			if !okCfg || fmt.Sprint(ids) != "[1 2 3]" {
				v = append(v, mc.Viol{Key: "mixed-or-invalid-configuration-in-effect", Desc: fmt.Sprintf("effective configuration basedir=%s default=%d sets=%v is none of the complete valid configurations installed so far; events: %s",
					strings.TrimPrefix(eff.dir, w.root), eff.def, ids, strings.Join(w.describeEvents(), " | "))})
			}
			if !okHook {
				v = append(v, mc.Viol{Key: "hooks-store-dir-invalid", Desc: "hooks caller holds store directory " + w.st.hooks.store})
			}
			return v
		},
		Final: func(s *mc.Sched, out mc.Outcome) []mc.Viol {
			v := c10Final(s, out)
			if out == mc.Quiescent && W.startErr == nil {
				v = append(v, c18Final(s)...)
			}
			return v
		},
		Observe: func(s *mc.Sched, out mc.Outcome) string {
			w := W
			if w == nil || w.st == nil {
				return out.String()
			}
			return observeTerminal(s, out) + fmt.Sprintf(" eff=%s/%d B=%s", strings.TrimPrefix(w.st.dir.BaseDir, w.root), w.st.dir.Default, dirDigest(w.dirB))
		},
	}
}

func c18Final(s *mc.Sched) []mc.Viol {
	w := W
	var v []mc.Viol
	ctx := "events: " + strings.Join(w.describeEvents(), " | ")
	inst := w.installedCfgs()
	valid := func(i int) bool { k := w.sc.Cfgs[i].Kind; return k == "valid" || k == "same" }
	// allowed final configurations: a reload is processed after the last signal and reads the
	// last installed file: valid => exactly that one; invalid => whatever was in effect before
	last := inst[len(inst)-1]
	allowed := map[c18cfgView]bool{}
	if valid(last) {
		allowed[w.cfgView(last)] = true
	} else {
		for _, i := range inst {
			if valid(i) {
				allowed[w.cfgView(i)] = true
			}
		}
	}
	eff := c18cfgView{w.st.dir.BaseDir, w.st.dir.Default}
	if !allowed[eff] {
		k := "reload-not-applied"
		if !valid(last) {
			k = "invalid-configuration-not-refused"
		}
		v = append(v, mc.Viol{Key: k, Desc: fmt.Sprintf("at quiescence the effective configuration is basedir=%s default=%d; installed sequence %v (last valid=%v); %s", strings.TrimPrefix(eff.dir, w.root), eff.def, inst, valid(last), ctx)})
	}
	if w.st.hooks.store != eff.dir {
		// the hooks loop may not have consumed NewStore yet only if it is still queued
		if w.st.hooks.NewStore.Len() == 0 {
			v = append(v, mc.Viol{Key: "hooks-store-dir-differs-from-effective", Desc: fmt.Sprintf("hooks store %s, effective %s; %s", w.st.hooks.store, eff.dir, ctx)})
		}
	}
	// every response is the sequential answer under one of the configurations possibly in effect
	pw := map[string]map[string]string{w.dirA: {"root": "rootpw", "u": "pwA"}, w.dirB: {"root": "rootpw", "u": "pwB"}}
	for _, e := range w.events {
		if e.Op.Kind != "auth" {
			continue
		}
		possible := map[string]bool{}
		for _, i := range inst {
			if !valid(i) {
				continue
			}
			d := w.cfgView(i).dir
			cur := pw[d][e.Op.User]
			// an update of u issued by a client before may have changed the password in that directory
			cands := []string{cur}
			for _, e2 := range w.events {
				if e2.Op.Kind == "update" && e2.Op.User == e.Op.User && e2.Inv < e.Resp {
					cands = append(cands, e2.Op.Pw)
				}
			}
			for _, c := range cands {
				possible[fmt.Sprintf("%v/false", c == e.Op.Pw)] = true
			}
		}
		if !possible[e.Res] {
			v = append(v, mc.Viol{Key: "response-under-no-configuration", Desc: fmt.Sprintf("%v answered %s which no complete configuration explains; %s", e.Op, e.Res, ctx)})
		}
	}
	// every record lies in a directory together with a default that belonged to that directory
	for _, dir := range []string{w.dirA, w.dirB} {
		defs := map[string]bool{"1": true}
		for _, i := range inst {
			if valid(i) && w.cfgView(i).dir == dir {
				defs[fmt.Sprint(w.cfgView(i).def)] = true
			}
		}
		for fn, c := range verifx.Snap(dir) {
			if !strings.HasSuffix(fn, ".user") && !strings.HasSuffix(fn, ".admin") {
				continue
			}
			set, _ := recordInfo(c[1:])
			if !defs[set] {
				v = append(v, mc.Viol{Key: "record-written-under-mixed-configuration", Desc: fmt.Sprintf("%s in %s is under parameter set %s, but that directory was only ever configured with defaults %v; %s", fn, strings.TrimPrefix(dir, w.root), set, defs, ctx)})
			}
		}
	}
	if _, err := os.Stat(w.root + "/empty"); err == nil {
		if ents, _ := os.ReadDir(w.root + "/empty"); len(ents) != 0 {
			v = append(v, mc.Viol{Key: "write-into-refused-directory", Desc: fmt.Sprintf("the directory of the refused configuration received %d entries; %s", len(ents), ctx)})
		}
	}
	return v
}
