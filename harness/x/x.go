// Package verifx: helpers shared by the store-level harnesses (mounted by the overlay at
// github.com/whawty/auth/internal/verifx).
package verifx

import (
	"bytes"
	"crypto/sha256"
	"fmt"
	"os"
	"path/filepath"
	"runtime"
	"sort"
	"strconv"
	"strings"
	"sync"

	"github.com/whawty/auth/store"
)

// HmacKeyB64 is the (public, test-only) HMAC key of the cheap scrypt parameter sets.
const HmacKeyB64 = "iVFsAUHMjCbCAJrM8QXiqRRa8iV2zsqpQhUD7DFKVdk="

// CheapParams returns the three cheap parameter sets used all over the harnesses:
//
//	1: argon2id(time 1, memory 8 KiB, threads 1, length 16)
//	2: hmac_sha256_scrypt(cost 1 => N=2, r 1, p 1)
//	3: argon2id(time 2, memory 16 KiB, threads 1, length 32)
func CheapParams() map[uint]store.Hasher {
	m := map[uint]store.Hasher{}
	a1, _ := store.NewArgon2IDHasher(&store.Argon2IDParams{Time: 1, Memory: 8, Threads: 1, Length: 16})
	s2, err := store.NewScryptAuthHasher(&store.ScryptAuthParams{HmacKeyBase64: HmacKeyB64, Cost: 1, R: 1, P: 1})
	if err != nil {
		panic(err)
	}
	a3, _ := store.NewArgon2IDHasher(&store.Argon2IDParams{Time: 2, Memory: 16, Threads: 1, Length: 32})
	m[1], m[2], m[3] = a1, s2, a3
	return m
}

// IsScryptSet tells whether cheap parameter set id is the scrypt one.
func IsScryptSet(id uint) bool { return id == 2 }

func FormatOfSet(id uint) string {
	if IsScryptSet(id) {
		return "hmac_sha256_scrypt"
	}
	return "argon2id"
}

// CheapDir returns a store.Dir over base with the cheap parameter sets.
func CheapDir(base string, def uint) *store.Dir {
	d := store.NewDir(base)
	d.Params = CheapParams()
	d.Default = def
	return d
}

// CheapConfigYAML renders the cheap parameter sets as a store configuration file.
func CheapConfigYAML(base string, def uint) string {
	return fmt.Sprintf(`basedir: %s
default: %d
params:
  - id: 1
    argon2id:
      time: 1
      memory: 8
      threads: 1
      length: 16
  - id: 2
    scryptauth:
      hmackey: %s
      cost: 1
      r: 1
      p: 1
  - id: 3
    argon2id:
      time: 2
      memory: 16
      threads: 1
      length: 32
`, strconv.Quote(base), def, HmacKeyB64)
}

// CheapConfigYAMLOnly is CheapConfigYAML restricted to the given parameter-set ids.
func CheapConfigYAMLOnly(base string, def uint, only []uint) string {
	full := CheapConfigYAML(base, def)
	head, rest, _ := strings.Cut(full, "params:\n")
	blocks := strings.Split(rest, "  - id: ")
	out := head + "params:\n"
	for _, b := range blocks {
		if b == "" {
			continue
		}
		for _, id := range only {
			if strings.HasPrefix(b, fmt.Sprintf("%d\n", id)) {
				out += "  - id: " + b
			}
		}
	}
	return out
}

// PwKey is the key under which two passwords are indistinguishable for a parameter set:
// exact bytes for argon2id; for scrypt (PBKDF2-HMAC-SHA256 inside) the HMAC-normalised key.
func PwKey(set uint, pw string) string {
	if !IsScryptSet(set) {
		return pw
	}
	k := []byte(pw)
	if len(k) > 64 {
		h := sha256.Sum256(k)
		k = h[:]
	}
	return string(bytes.TrimRight(k, "\x00"))
}

// Snapshot is a byte-exact picture of a directory tree (relative path -> content;
// directories are recorded as "<path>/" -> mode string, symlinks as "@target").
type Snapshot map[string]string

func Snap(root string) Snapshot {
	s := Snapshot{}
	filepath.Walk(root, func(p string, info os.FileInfo, err error) error { //nolint:errcheck
		if err != nil {
			s[p+"!err"] = err.Error()
			return nil
		}
		rel, _ := filepath.Rel(root, p)
		if rel == "." {
			return nil
		}
		switch {
		case info.IsDir():
			s[rel+"/"] = info.Mode().Perm().String()
		case info.Mode()&os.ModeSymlink != 0:
			t, _ := os.Readlink(p)
			s[rel] = "@" + t
		case info.Mode().IsRegular():
			b, err := os.ReadFile(p)
			if err != nil {
				s[rel] = "!unreadable:" + err.Error()
			} else {
				s[rel] = "=" + string(b)
			}
		default:
			s[rel] = "?" + info.Mode().String()
		}
		return nil
	})
	return s
}

func (s Snapshot) Equal(o Snapshot) bool {
	if len(s) != len(o) {
		return false
	}
	for k, v := range s {
		if ov, ok := o[k]; !ok || ov != v {
			return false
		}
	}
	return true
}

// Diff describes the difference between two snapshots (for messages).
func (s Snapshot) Diff(o Snapshot) string {
	var out []string
	for k, v := range s {
		ov, ok := o[k]
		if !ok {
			out = append(out, "-"+k)
		} else if ov != v {
			out = append(out, "~"+k)
		}
	}
	for k := range o {
		if _, ok := s[k]; !ok {
			out = append(out, "+"+k)
		}
	}
	sort.Strings(out)
	return strings.Join(out, " ")
}

// Restore makes root contain exactly the regular files/dirs of the snapshot.
func Restore(root string, s Snapshot) error {
	if err := os.RemoveAll(root); err != nil {
		return err
	}
	if err := os.MkdirAll(root, 0700); err != nil {
		return err
	}
	keys := make([]string, 0, len(s))
	for k := range s {
		keys = append(keys, k)
	}
	sort.Strings(keys)
	for _, k := range keys {
		v := s[k]
		p := filepath.Join(root, k)
		if strings.HasSuffix(k, "/") {
			if err := os.MkdirAll(p, 0700); err != nil {
				return err
			}
			continue
		}
		if err := os.MkdirAll(filepath.Dir(p), 0700); err != nil {
			return err
		}
		switch v[0] {
		case '=':
			if err := os.WriteFile(p, []byte(v[1:]), 0600); err != nil {
				return err
			}
		case '@':
			if err := os.Symlink(v[1:], p); err != nil {
				return err
			}
		default:
			return fmt.Errorf("cannot restore %q (%q)", k, v)
		}
	}
	return nil
}

// Scratch returns a fresh directory under $VERIF_SCRATCH (or /dev/shm).
func Scratch(name string) string {
	base := os.Getenv("VERIF_SCRATCH")
	if base == "" {
		base = "/dev/shm"
	}
	d, err := os.MkdirTemp(base, name+"-")
	if err != nil {
		panic(err)
	}
	return d
}

// NCPU is the worker count harnesses use.
func NCPU() int {
	if n, err := strconv.Atoi(os.Getenv("VERIF_NCPU")); err == nil && n > 0 {
		return n
	}
	return runtime.NumCPU()
}

// Parallel runs f(worker, i) for i in [0,n) on NCPU workers.
func Parallel(n int, f func(worker, i int)) {
	w := NCPU()
	if w > n {
		w = n
	}
	if w < 1 {
		w = 1
	}
	var wg sync.WaitGroup
	var mu sync.Mutex
	next := 0
	for k := 0; k < w; k++ {
		wg.Add(1)
		go func(k int) {
			defer wg.Done()
			for {
				mu.Lock()
				i := next
				next++
				mu.Unlock()
				if i >= n {
					return
				}
				f(k, i)
			}
		}(k)
	}
	wg.Wait()
}

// Q quotes a byte string compactly for messages and replay files.
func Q(s string) string {
	if len(s) > 48 {
		h := sha256.Sum256([]byte(s))
		return fmt.Sprintf("%q...(len=%d,sha=%x)", s[:16], len(s), h[:4])
	}
	return strconv.Quote(s)
}
