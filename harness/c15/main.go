// C15 (auxiliary data part) — changing one user's password or admin status preserves that
// user's auxiliary lines and every other file byte-for-byte.  Exhaustive product of
// auxiliary-data shapes x operations x parameter sets on a store with several users.
package main

import (
	"fmt"
	"os"
	"path/filepath"
	"strings"

	"github.com/whawty/auth/internal/verifev"
	"github.com/whawty/auth/internal/verifx"
	"github.com/whawty/auth/store"
)

func main() {
	as := os.Getenv("VERIF_AS")
	if as == "" {
		as = "C15"
	}
	ev := verifev.New(as, "aux")
	big := strings.Repeat("Z", 200*1024)
	auxes := map[string]string{
		"none":             "",
		"one-line":         "totp: ABC\n",
		"three-lines":      "a: 1\nb: 2\nc: 3\n",
		"no-final-newline": "a: 1\nlast",
		"crlf":             "a: 1\r\nb: 2\r\n",
		"binary":           "\x00\x01\xff\xfe\n\x00\n\n\x00",
		"blank-lines":      "\n\n\n",
		"colon-lines":      "argon2id:1:1:AAAA:AAAA\n:::\n",
		"long-line":        big + "\n",
		"long-line-nonl":   big,
		"just-over-4k":     strings.Repeat("q", 4097),
		"exactly-4096":     strings.Repeat("q", 4095) + "\n",
	}
	ops := []string{"upgrade", "update", "setadmin-true", "setadmin-false", "setadmin-noop", "update-other-user", "remove-other-user", "add-other-user", "remove-target"}
	if as == "C12" {
		ops = []string{"upgrade"}
	}
	// parameter sets 8 and 9 make the record line itself longer than 4 KiB / 64 KiB
	mkdir := func(dir string, def uint) *store.Dir {
		d := verifx.CheapDir(dir, def)
		h8, err8 := store.NewArgon2IDHasher(&store.Argon2IDParams{Time: 1, Memory: 8, Threads: 1, Length: 3100})
		h9, err9 := store.NewArgon2IDHasher(&store.Argon2IDParams{Time: 1, Memory: 8, Threads: 1, Length: 70000})
		must(err8)
		must(err9)
		d.Params[8], d.Params[9] = h8, h9
		return d
	}
	other := func(set uint) uint {
		if set == 1 {
			return 2
		}
		return 1
	}
	root := verifx.Scratch("c15")
	defer os.RemoveAll(root)
	type job struct {
		aux, op string
		set     uint
		admin   bool
	}
	var jobs []job
	for an := range auxes {
		for _, op := range ops {
			for _, set := range []uint{1, 2, 8, 9} {
				for _, adm := range []bool{false, true} {
					jobs = append(jobs, job{an, op, set, adm})
				}
			}
		}
	}
	verifx.Parallel(len(jobs), func(w, i int) {
		j := jobs[i]
		dir := filepath.Join(root, fmt.Sprintf("w%d", w))
		os.RemoveAll(dir)
		os.MkdirAll(dir, 0700) //nolint:errcheck
		d := mkdir(dir, j.set)
		must(d.AddUser("root", "rootpw", true))
		must(d.AddUser("t", "tpw", j.admin))
		must(d.AddUser("o", "opw", false))
		// users whose names extend the target's / the other user's name by a dot-separated part
		must(d.AddUser("t.x", "txpw", false))
		must(d.AddUser("o.k", "okpw", true))
		ext := ".user"
		if j.admin {
			ext = ".admin"
		}
		tf := filepath.Join(dir, "t"+ext)
		b, _ := os.ReadFile(tf)
		must(os.WriteFile(tf, append(b, auxes[j.aux]...), 0600))
		of := filepath.Join(dir, "o.user")
		ob, _ := os.ReadFile(of)
		must(os.WriteFile(of, append(ob, "o-aux\n"...), 0600))
		before := verifx.Snap(dir)
		ev.Add("evaluations", 1)
		origFirst, _, _ := strings.Cut(string(b), "\n")
		var err error
		newExt := ext
		switch j.op {
		case "upgrade":
			// what the agent does after a successful login with an upgradeable hash: the same
			// password is written again under the (now different) default parameter set
			du := mkdir(dir, other(j.set))
			if ok, _, upg, _, aerr := du.Authenticate("t", "tpw"); !ok || !upg {
				viol0(ev, j.aux, j.op, j.set, j.admin, "not-upgradeable", fmt.Sprintf("record of set %d under default %d: ok=%v upgradeable=%v err=%v", j.set, other(j.set), ok, upg, aerr))
			}
			err = du.UpdateUser("t", "tpw")
		case "update":
			err = mkdir(dir, other(j.set)).UpdateUser("t", "newpw") // under the other default
		case "setadmin-true":
			err = d.SetAdmin("t", true)
			newExt = ".admin"
		case "setadmin-false":
			err = d.SetAdmin("t", false)
			newExt = ".user"
		case "setadmin-noop":
			err = d.SetAdmin("t", j.admin)
		case "update-other-user":
			err = d.UpdateUser("o", "onew")
		case "remove-other-user":
			d.RemoveUser("o")
		case "add-other-user":
			err = d.AddUser("n", "npw", false)
		case "remove-target":
			d.RemoveUser("t")
		}
		viol := func(kind, format string, a ...any) {
			ev.Violation(kind+":"+j.op, fmt.Sprintf("[aux %s, op %s, set %d, admin %v] ", j.aux, j.op, j.set, j.admin)+fmt.Sprintf(format, a...), map[string]any{"aux": j.aux, "op": j.op, "set": j.set, "admin": j.admin})
		}
		if err != nil {
			viol("op-failed", "operation failed: %v", err)
			return
		}
		after := verifx.Snap(dir)
		if j.op == "remove-target" {
			// the target's record is gone, nothing else differs
			for k, v := range before {
				if k == "t.user" || k == "t.admin" {
					if _, still := after[k]; still {
						viol("remove-left-record", "file %s still present after remove", k)
					}
				} else if !strings.HasPrefix(k, ".tmp") && after[k] != v {
					viol("other-file-changed", "file %s changed", k)
				}
			}
			for k := range after {
				if _, ok := before[k]; !ok && !strings.HasPrefix(k, ".tmp") {
					viol("new-file", "unexpected new file %s", k)
				}
			}
			ev.Distinct(fmt.Sprintf("%s|%s|%d|%v", j.aux, j.op, j.set, j.admin))
			return
		}
		nb, rerr := os.ReadFile(filepath.Join(dir, "t"+newExt))
		if rerr != nil {
			viol("target-missing", "target file missing after the operation: %v", rerr)
			return
		}
		first, rest, _ := strings.Cut(string(nb), "\n")
		if rest != auxes[j.aux] {
			viol("aux-changed", "auxiliary data changed: %d bytes before, %d after (first difference near byte %d)", len(auxes[j.aux]), len(rest), firstDiff(rest, auxes[j.aux]))
		}
		if j.op != "update" && j.op != "upgrade" && first != origFirst {
			viol("record-changed", "record line (incl. timestamp) changed by %s", j.op)
		}
		if j.op == "upgrade" {
			du := mkdir(dir, other(j.set))
			if ok, adm, upg, _, _ := du.Authenticate("t", "tpw"); !ok || adm != j.admin || upg {
				viol("upgrade-effect", "after the upgrade: same password ok=%v admin=%v (want %v) still upgradeable=%v", ok, adm, j.admin, upg)
			}
			if ok, _, _, _, _ := du.Authenticate("t", "newpw"); ok {
				viol("upgrade-effect", "after the upgrade another password is accepted")
			}
			if !strings.HasPrefix(first, verifx.FormatOfSet(other(j.set))+":") || first == origFirst {
				viol("upgrade-effect", "record line after the upgrade is %.40q (before %.40q)", first, origFirst)
			}
		}
		if j.op == "update" {
			if ok, adm, _, _, _ := d.Authenticate("t", "newpw"); !ok || adm != j.admin {
				viol("update-effect", "new password ok=%v admin=%v", ok, adm)
			}
		}
		// every other file byte-identical
		for k, v := range before {
			if k == "t.user" || k == "t.admin" || strings.HasPrefix(k, ".tmp") {
				continue
			}
			if (j.op == "update-other-user" || j.op == "remove-other-user") && (k == "o.user" || k == "o.admin") {
				continue
			}
			if after[k] != v {
				viol("other-file-changed", "file %s changed", k)
			}
		}
		for k := range after {
			if _, ok := before[k]; !ok && !strings.HasPrefix(k, ".tmp") && k != "t.user" && k != "t.admin" && !(j.op == "add-other-user" && k == "n.user") {
				viol("new-file", "unexpected new file %s", k)
			}
			if strings.HasPrefix(k, ".tmp/") && k != ".tmp/" {
				viol("tmp-residue", "work area not empty after completed operation: %s", k)
			}
		}
		if j.op == "update-other-user" {
			ob2, _ := os.ReadFile(of)
			if _, r, _ := strings.Cut(string(ob2), "\n"); r != "o-aux\n" {
				viol("aux-changed", "other user's aux changed")
			}
		}
		ev.Distinct(fmt.Sprintf("%s|%s|%d|%v", j.aux, j.op, j.set, j.admin))
		if i%97 == 0 {
			ev.Sample(map[string]any{"aux": j.aux, "op": j.op, "set": j.set, "admin": j.admin, "aux_bytes": len(auxes[j.aux])})
		}
	})
	if as == "C15" {
		genFailures(ev, root)
	}
	ev.Rule = fmt.Sprintf("%d auxiliary-data shapes (none, 1/3 lines, no final newline, CRLF, binary with NUL, blank lines, record-like lines, one 200 KiB line with/without newline, 4096/4097 bytes) x %d operations x 4 parameter sets (two cheap ones, record lines of >4 KiB and >64 KiB) x user/admin on a 5-user store (incl. names that extend another name by a dot-separated part); operation upgrade = same password re-written under another default, as the agent does after a login with an upgradeable hash; byte comparison of the target's auxiliary data, its record line (set-admin) and all other files; add/update/init failing because the default set cannot generate a hash (injected hasher, scrypt r*p too large) x work area present/absent leave the directory byte-identical", len(auxes), len(ops))
	ev.Finish()
}

// failHasher: a default parameter set whose hash generation fails (as scrypt does for
// parameters its library refuses): a semantic failure without any I/O error.
type failHasher struct{ store.Hasher }

func (failHasher) Generate(password string) (string, error) {
	return "", fmt.Errorf("hash generation failed")
}

// genFailures: add / update / init that fail because the hash cannot be generated leave the
// directory byte-identical (an empty work area may appear), on trees with and without .tmp.
func genFailures(ev *verifev.Run, root string) {
	for _, withTmp := range []bool{true, false} {
		for _, kind := range []string{"injected-hasher", "scrypt-r*p-too-large"} {
			for _, op := range []string{"add-user", "add-admin", "update", "update-admin", "init"} {
				dir := filepath.Join(root, "genfail")
				os.RemoveAll(dir)
				os.MkdirAll(dir, 0700) //nolint:errcheck
				good := verifx.CheapDir(dir, 1)
				if op != "init" {
					must(good.AddUser("root", "rootpw", true))
					must(good.AddUser("t", "tpw", false))
					tf := filepath.Join(dir, "t.user")
					b, _ := os.ReadFile(tf)
					must(os.WriteFile(tf, append(b, "aux of t\n"...), 0600))
				}
				if withTmp {
					os.MkdirAll(filepath.Join(dir, ".tmp"), 0700) //nolint:errcheck
				} else {
					os.RemoveAll(filepath.Join(dir, ".tmp"))
				}
				d := verifx.CheapDir(dir, 7)
				if kind == "injected-hasher" {
					d.Params[7] = failHasher{d.Params[1]}
				} else {
					h, err := store.NewScryptAuthHasher(&store.ScryptAuthParams{HmacKeyBase64: verifx.HmacKeyB64, Cost: 1, R: 1 << 20, P: 1 << 12})
					if err != nil {
						continue // refused at construction: nothing to test
					}
					d.Params[7] = h
				}
				before := verifx.Snap(dir)
				var err error
				switch op {
				case "add-user":
					err = d.AddUser("n", "npw", false)
				case "add-admin":
					err = d.AddUser("n", "npw", true)
				case "update":
					err = d.UpdateUser("t", "newpw")
				case "update-admin":
					err = d.UpdateUser("root", "newpw")
				case "init":
					err = d.Init("root", "rootpw")
				}
				ev.Add("evaluations", 1)
				ev.Distinct(fmt.Sprintf("genfail|%s|%s|%v", kind, op, withTmp))
				rp := map[string]any{"op": op, "failing": kind, "with_tmp": withTmp}
				if err == nil {
					ev.Violation("hash-generation-failure-ignored:"+op, fmt.Sprintf("[%s, %s, .tmp present %v] the operation reports success although the hash could not be generated", kind, op, withTmp), rp)
					continue
				}
				after := verifx.Snap(dir)
				delete(before, ".tmp/")
				delete(after, ".tmp/")
				if !after.Equal(before) {
					ev.Violation("failed-op-changed-store:"+op+":hash-generation", fmt.Sprintf("[%s, %s, .tmp present %v] the operation reports failure (%v) but the directory changed: %s", kind, op, withTmp, err, before.Diff(after)), rp)
				}
			}
		}
	}
}

func viol0(ev *verifev.Run, aux, op string, set uint, admin bool, kind, msg string) {
	ev.Violation(kind+":"+op, fmt.Sprintf("[aux %s, op %s, set %d, admin %v] %s", aux, op, set, admin, msg), map[string]any{"aux": aux, "op": op, "set": set, "admin": admin})
}

func firstDiff(a, b string) int {
	for i := 0; i < len(a) && i < len(b); i++ {
		if a[i] != b[i] {
			return i
		}
	}
	if len(a) < len(b) {
		return len(a)
	}
	return len(b)
}

func must(err error) {
	if err != nil {
		fmt.Fprintln(os.Stderr, "setup:", err)
		os.Exit(2)
	}
}
