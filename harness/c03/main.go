// C03 (name sweep part) — the user-name grammar is enforced exactly, for every byte.
//
// Exhaustive sweep: every byte value 0..255 at the first position and at a later position
// of an otherwise valid name (plus single-byte names and all two-byte combinations of the
// "interesting" punctuation), through every store operation; the reference grammar is
// written as character classes (not as the regular expression of the implementation).
// Invalid names must fail or be no-ops and never authenticate, valid ones must work; files
// carrying invalid names never count for List or Check.
package main

import (
	"fmt"
	"os"
	"path/filepath"
	"strings"

	"github.com/whawty/auth/internal/verifev"
	"github.com/whawty/auth/internal/verifx"
)

func alnum(c byte) bool { return c >= 'A' && c <= 'Z' || c >= 'a' && c <= 'z' || c >= '0' && c <= '9' }

func validName(n string) bool {
	if len(n) == 0 || !alnum(n[0]) {
		return false
	}
	for i := 1; i < len(n); i++ {
		c := n[i]
		if !(alnum(c) || c == '-' || c == '_' || c == '.' || c == '@') {
			return false
		}
	}
	return true
}

func main() {
	ev := verifev.New("C03", "namesweep")
	var names []string
	for b := 0; b < 256; b++ {
		c := string([]byte{byte(b)})
		names = append(names, c, c+"x", "x"+c, "x"+c+"y", "ab"+c)
	}
	punct := "-_.@[]\\^`/{|}~:;<=>?!\"#$%&'()*+, \t"
	for i := 0; i < len(punct); i++ {
		for j := 0; j < len(punct); j++ {
			names = append(names, "x"+punct[i:i+1]+punct[j:j+1], punct[i:i+1]+punct[j:j+1]+"x")
		}
	}
	root := verifx.Scratch("c03sweep")
	defer os.RemoveAll(root)
	tmpl := filepath.Join(root, "tmpl")
	os.MkdirAll(tmpl, 0700) //nolint:errcheck
	td := verifx.CheapDir(tmpl, 1)
	if err := td.AddUser("root", "rootpw", true); err != nil {
		fmt.Fprintln(os.Stderr, err)
		os.Exit(2)
	}
	rec, _ := os.ReadFile(filepath.Join(tmpl, "root.admin"))
	base0 := verifx.Snap(tmpl)
	dirs := make([]string, verifx.NCPU())
	for i := range dirs {
		dirs[i] = filepath.Join(root, fmt.Sprintf("w%d", i))
	}
	verifx.Parallel(len(names), func(w, i int) {
		n := names[i]
		valid := validName(n)
		outer := dirs[w]
		dir := filepath.Join(outer, "base")
		os.RemoveAll(outer)
		if err := verifx.Restore(dir, base0); err != nil {
			fmt.Fprintln(os.Stderr, err)
			os.Exit(2)
		}
		os.WriteFile(filepath.Join(outer, "decoy.user"), rec, 0600) //nolint:errcheck
		d := verifx.CheapDir(dir, 1)
		viol := func(kind, format string, a ...any) {
			ev.Violation(kind, fmt.Sprintf("[user name %s] ", verifx.Q(n))+fmt.Sprintf(format, a...), map[string]any{"name": []byte(n)})
		}
		ev.Add("evaluations", 1)
		before := verifx.Snap(outer)
		// --- add
		err := d.AddUser(n, "pw1", false)
		if valid {
			if err != nil {
				viol("valid-name-refused", "AddUser failed: %v", err)
			}
			if ok, _, _, _, _ := d.Authenticate(n, "pw1"); !ok {
				viol("valid-name-unusable", "added user does not authenticate")
			}
			l, _ := d.List()
			if _, ok := l[n]; !ok {
				viol("valid-name-not-listed", "added user missing from List")
			}
			d.RemoveUser(n)
			if after := verifx.Snap(outer); !after.Equal(before) {
				viol("remove-incomplete", "tree differs after add+remove: %s", before.Diff(after))
			}
			ev.Distinct(fmt.Sprintf("valid|%v", err == nil))
			return
		}
		if err == nil {
			viol("invalid-name-accepted:add", "AddUser succeeded")
		}
		if after := verifx.Snap(outer); !after.Equal(before) {
			viol("invalid-name-effect:add", "AddUser changed the tree: %s", before.Diff(after))
			verifx.Restore(dir, base0) //nolint:errcheck
		}
		// --- a file carrying that name (where the file system can hold it)
		if !strings.ContainsAny(n, "/\x00") && n != "" && n != "." && n != ".." && len(n) < 200 {
			for _, ext := range []string{".user", ".admin"} {
				f := filepath.Join(dir, n+ext)
				if os.WriteFile(f, rec, 0600) != nil {
					continue
				}
				withFile := verifx.Snap(outer)
				for _, pw := range []string{"rootpw", "pw1"} {
					if ok, _, _, _, _ := d.Authenticate(n, pw); ok {
						viol("invalid-name-authenticates", "Authenticate(%s) succeeded with a file %s present", pw, n+ext)
					}
				}
				if ex, _, _ := d.Exists(n); ex {
					viol("invalid-name-exists", "Exists reports a user")
				}
				if err := d.UpdateUser(n, "pw2"); err == nil {
					viol("invalid-name-accepted:update", "UpdateUser succeeded")
				}
				if err := d.SetAdmin(n, ext == ".user"); err == nil {
					viol("invalid-name-accepted:setadmin", "SetAdmin succeeded")
				}
				d.RemoveUser(n)
				if after := verifx.Snap(outer); !after.Equal(withFile) {
					viol("invalid-name-effect", "operations with the invalid name changed the tree: %s", withFile.Diff(after))
				}
				l, _ := d.List()
				if _, ok := l[n]; ok {
					viol("invalid-name-listed", "List shows the invalid name")
				}
				os.Remove(f)
			}
			// a store whose ONLY admin file carries the invalid name is not valid
			only := filepath.Join(outer, "only")
			os.MkdirAll(only, 0700)                                  //nolint:errcheck
			os.WriteFile(filepath.Join(only, n+".admin"), rec, 0600) //nolint:errcheck
			if err := verifx.CheapDir(only, 1).Check(); err == nil {
				viol("invalid-named-admin-counts", "Check accepts a store whose only admin is %s.admin", verifx.Q(n))
			}
		} else {
			for _, pw := range []string{"rootpw", "pw1"} {
				if ok, _, _, _, _ := d.Authenticate(n, pw); ok {
					viol("invalid-name-authenticates", "Authenticate(%s) succeeded", pw)
				}
			}
			d.UpdateUser(n, "pw2") //nolint:errcheck
			d.SetAdmin(n, true)    //nolint:errcheck
			d.RemoveUser(n)
			if after := verifx.Snap(outer); !after.Equal(before) {
				viol("invalid-name-effect", "operations with the invalid name changed the tree: %s", before.Diff(after))
			}
		}
		ev.Distinct(fmt.Sprintf("invalid|%d|%v", len(n), err == nil))
		if i%211 == 0 {
			ev.Sample(map[string]any{"name": verifx.Q(n), "valid": valid})
		}
	})
	ev.Rule = fmt.Sprintf("%d names: every byte value 0..255 as a single-byte name, at the first position, at a later position, in the middle and at the end of an otherwise valid name; all pairs of 35 punctuation characters; each through add / authenticate / exists / update / set-admin / remove / list, with a file of that name present (.user and .admin), and as the only admin of a store (Check); reference grammar written as character classes", len(names))
	ev.Finish()
}
