package main

// Binding battery (DESIGN.md 2.2): the same sequential scenarios are executed on the
// REWRITTEN build (channels/select/go/time/signal bound to verifmc, default schedule) and
// on the PLAIN build (real channels, real goroutines, real signal); every observable
// result must agree.  A disagreement means the rewriter or a shim misrepresents the code:
// that is a tool error, never a property verdict.

import (
	"fmt"
	"os"
	"path/filepath"
	"sort"
	"strings"

	"github.com/whawty/auth/internal/verifx"
)

type bop struct {
	Kind  string
	User  string
	Pw    string
	Admin bool
	Cfg   int
}

type buser struct {
	Name  string
	Pw    string
	Set   uint
	Admin bool
	Aux   string
}

type bscen struct {
	Name     string
	Upgrades string
	Default  uint
	Policy   string
	Users    []buser
	Ops      []bop
	// reload targets: cfg i -> (dir "A"|"B", default)
	Cfgs [][2]string
}

var bindUsers = []buser{
	{Name: "root", Pw: "rootpw", Set: 1, Admin: true},
	{Name: "u", Pw: "o", Set: 2, Aux: "aux1\naux2"},
	{Name: "v", Pw: "vpw", Set: 3},
}

func bindScenarios() []bscen {
	a := func(u, p string) bop { return bop{Kind: "auth", User: u, Pw: p} }
	upd := func(u, p string) bop { return bop{Kind: "update", User: u, Pw: p} }
	return []bscen{
		{Name: "mgmt-off", Default: 1, Users: bindUsers, Ops: []bop{a("u", "o"), a("u", "x"), upd("u", "n"), a("u", "n"), a("u", "o"), {Kind: "add", User: "w", Pw: "wpw"}, {Kind: "add", User: "w", Pw: "again"},
			{Kind: "setadmin", User: "w", Admin: true}, {Kind: "list"}, {Kind: "remove", User: "v"}, a("v", "vpw"), upd("nobody", "x"), {Kind: "setadmin", User: "nobody", Admin: true}, {Kind: "check"}, {Kind: "flush"}}},
		{Name: "upgrade-local", Upgrades: "local", Default: 1, Users: bindUsers, Ops: []bop{a("u", "bad"), {Kind: "flush"}, a("u", "o"), {Kind: "flush"}, a("v", "vpw"), {Kind: "flush"}, a("u", "o"), a("root", "rootpw"), {Kind: "flush"}}},
		{Name: "upgrade-local-default3", Upgrades: "local", Default: 3, Users: bindUsers, Ops: []bop{a("u", "o"), a("root", "rootpw"), {Kind: "flush"}, upd("u", "n"), a("u", "n"), {Kind: "flush"}}},
		{Name: "policy", Default: 1, Policy: "score >= 3", Users: bindUsers, Ops: []bop{upd("u", "a"), upd("u", "xK9#mQ2$vL7@pR4!nW8"), a("u", "xK9#mQ2$vL7@pR4!nW8"), {Kind: "add", User: "w", Pw: "password"}, {Kind: "flush"}}},
		{Name: "reload", Default: 1, Users: bindUsers, Cfgs: [][2]string{{"A", "1"}, {"B", "2"}, {"A", "3"}},
			Ops: []bop{a("u", "o"), {Kind: "sighup", Cfg: 1}, a("u", "o"), a("u", "pwB"), upd("u", "nB"), {Kind: "sighup", Cfg: 2}, a("u", "o"), upd("u", "n3"), a("u", "n3"), {Kind: "flush"}}},
	}
}

type bworld struct {
	sc         *bscen
	root       string
	dirA, dirB string
	cfg        string
}

func bindSetup(sc *bscen, root string) *bworld {
	w := &bworld{sc: sc, root: root, dirA: filepath.Join(root, "A"), dirB: filepath.Join(root, "B"), cfg: filepath.Join(root, "store.yaml")}
	os.RemoveAll(root)
	for _, d := range []string{w.dirA, w.dirB} {
		if err := os.MkdirAll(d, 0700); err != nil {
			panic(err)
		}
	}
	fill := func(dir string, users []buser) {
		for _, u := range users {
			if err := verifx.CheapDir(dir, u.Set).AddUser(u.Name, u.Pw, u.Admin); err != nil {
				panic(err)
			}
			if u.Aux != "" {
				f := filepath.Join(dir, u.Name+".user")
				b, _ := os.ReadFile(f)
				os.WriteFile(f, append(b, u.Aux...), 0600) //nolint:errcheck
			}
		}
	}
	fill(w.dirA, sc.Users)
	fill(w.dirB, []buser{{Name: "root", Pw: "rootpw", Set: 1, Admin: true}, {Name: "u", Pw: "pwB", Set: 1}, {Name: "flushuser", Pw: "f", Set: 1}})
	fill(w.dirA, []buser{{Name: "flushuser", Pw: "f", Set: 1}})
	os.WriteFile(w.cfg, []byte(verifx.CheapConfigYAML(w.dirA, sc.Default)), 0600) //nolint:errcheck
	return w
}

func (w *bworld) install(i int) {
	c := w.sc.Cfgs[i]
	d := w.dirA
	if c[0] == "B" {
		d = w.dirB
	}
	var def uint
	fmt.Sscan(c[1], &def)
	os.WriteFile(w.cfg, []byte(verifx.CheapConfigYAML(d, def)), 0600) //nolint:errcheck
}

func (w *bworld) policy() (string, string) {
	if w.sc.Policy == "" {
		return "", ""
	}
	return "zxcvbn", w.sc.Policy
}

// bindApply performs one operation through the agent's request interface.
func bindApply(st *Store, o bop) string {
	e := func(err error) string {
		if err != nil {
			return "err"
		}
		return "ok"
	}
	switch o.Kind {
	case "auth":
		ok, adm, _, err := st.Authenticate(o.User, o.Pw)
		return fmt.Sprintf("%v/%v/%s", ok, adm, e(err))
	case "update":
		return e(st.Update(o.User, o.Pw))
	case "add":
		return e(st.Add(o.User, o.Pw, o.Admin))
	case "remove":
		return e(st.Remove(o.User))
	case "setadmin":
		return e(st.SetAdmin(o.User, o.Admin))
	case "check":
		return e(st.Check())
	case "list":
		l, err := st.List()
		var ks []string
		for k, v := range l {
			ks = append(ks, fmt.Sprintf("%s:%v", k, v.IsAdmin))
		}
		sort.Strings(ks)
		return strings.Join(ks, ",") + "/" + e(err)
	case "flush":
		// FIFO behind any queued local upgrade
		return e(st.Update("flushuser", "f"))
	}
	return "?"
}

// bindDigest renders the final content of both directories independent of salts/timestamps.
func (w *bworld) digest() string {
	pws := map[string]bool{"f": true, "pwB": true}
	for _, u := range w.sc.Users {
		pws[u.Pw] = true
	}
	for _, o := range w.sc.Ops {
		if o.Pw != "" {
			pws[o.Pw] = true
		}
	}
	var ps []string
	for p := range pws {
		ps = append(ps, p)
	}
	sort.Strings(ps)
	var out []string
	for _, dir := range []string{w.dirA, w.dirB} {
		d := verifx.CheapDir(dir, 1)
		ents, _ := os.ReadDir(dir)
		for _, e := range ents {
			if e.IsDir() {
				sub, _ := os.ReadDir(filepath.Join(dir, e.Name()))
				out = append(out, fmt.Sprintf("%s/%s(%d)", filepath.Base(dir), e.Name(), len(sub)))
				continue
			}
			b, _ := os.ReadFile(filepath.Join(dir, e.Name()))
			first, aux, _ := strings.Cut(string(b), "\n")
			f := strings.SplitN(first, ":", 4)
			set := "?"
			if len(f) == 4 {
				set = f[2]
			}
			user := strings.TrimSuffix(strings.TrimSuffix(e.Name(), ".user"), ".admin")
			var ok []string
			for _, p := range ps {
				if y, _, _, _, _ := d.Authenticate(user, p); y {
					ok = append(ok, p)
				}
			}
			out = append(out, fmt.Sprintf("%s/%s set=%s pw=%v aux=%q", filepath.Base(dir), e.Name(), set, ok, aux))
		}
	}
	return strings.Join(out, "; ")
}
