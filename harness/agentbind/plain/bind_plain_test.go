package main

import (
	"fmt"
	"io"
	"log"
	"os"
	"path/filepath"
	"syscall"
	"testing"
	"time"

	"github.com/whawty/auth/internal/verifev"
	"github.com/whawty/auth/internal/verifx"
)

// TestBindPlain: the battery on the plain build (real channels, goroutines, signals).
func TestBindPlain(t *testing.T) {
	log.SetOutput(io.Discard)
	wl.SetOutput(io.Discard)
	ev := verifev.New(os.Getenv("VERIF_BIND_PROP"), "bind-plain")
	root := verifx.Scratch("bindplain")
	defer os.RemoveAll(root)
	for _, sc := range bindScenarios() {
		sc := sc
		w := bindSetup(&sc, filepath.Join(root, "w"))
		pt, pc := w.policy()
		s, err := NewStore(w.cfg, sc.Upgrades, pt, pc, "")
		if err != nil {
			fmt.Println("harness infrastructure error:", err)
			os.Exit(2)
		}
		st := s.GetInterface()
		for i, o := range sc.Ops {
			var res string
			if o.Kind == "sighup" {
				old := s.dir
				w.install(o.Cfg)
				syscall.Kill(os.Getpid(), syscall.SIGHUP) //nolint:errcheck
				// the battery only reloads valid configurations: wait until the swap is visible
				res = "reloaded"
				for k := 0; s.dir == old; k++ {
					if k > 5000 {
						res = "reload-not-observed"
						break
					}
					time.Sleep(time.Millisecond)
					st.Check() //nolint:errcheck
				}
			} else {
				res = bindApply(st, o)
			}
			fmt.Printf("BIND %s %d %s %s\n", sc.Name, i, o.Kind, res)
			ev.Add("evaluations", 1)
		}
		fmt.Printf("BIND %s final %s\n", sc.Name, w.digest())
		ev.Distinct(sc.Name)
	}
	ev.Rule = "binding battery on the plain build"
	ev.Sample("see bind-mc")
	ev.Finish()
}
