package main

import (
	"fmt"
	"os"
	"path/filepath"
	"syscall"
	"testing"

	"github.com/whawty/auth/internal/verifev"
	mc "github.com/whawty/auth/internal/verifmc"
	"github.com/whawty/auth/internal/verifmc/vsignal"
)

// TestBindMC: the battery on the rewritten build under the scheduler (default schedule).
func TestBindMC(t *testing.T) {
	ev := verifev.New(os.Getenv("VERIF_BIND_PROP"), "bind-mc")
	root := filepath.Join(scratchRoot(), "bind")
	for _, sc := range bindScenarios() {
		sc := sc
		var lines []string
		var w *bworld
		h := mc.Harness{
			Name: "bind-" + sc.Name,
			Root: func() {
				lines = nil
				mc.CapLimit = 0
				w = bindSetup(&sc, filepath.Join(root, "w"))
				pt, pc := w.policy()
				s, err := NewStore(w.cfg, sc.Upgrades, pt, pc, "")
				must(err)
				st := s.GetInterface()
				mc.GoClient("c0", func() {
					for i, o := range sc.Ops {
						var res string
						if o.Kind == "sighup" {
							w.install(o.Cfg)
							vsignal.Deliver("bind.sighup", syscall.SIGHUP)
							// like the plain runner: wait (by polling with requests) until the swap is visible
							old := s.dir
							res = "reloaded"
							for k := 0; s.dir == old; k++ {
								if k > 50 {
									res = "reload-not-observed"
									break
								}
								st.Check() //nolint:errcheck
							}
						} else {
							res = bindApply(st, o)
						}
						lines = append(lines, fmt.Sprintf("BIND %s %d %s %s", sc.Name, i, o.Kind, res))
					}
				})
			},
			Final: func(s *mc.Sched, out mc.Outcome) []mc.Viol {
				if out != mc.Quiescent {
					return []mc.Viol{{Key: "binding-run-" + out.String(), Desc: fmt.Sprint(s.Blocked())}}
				}
				return nil
			},
			Cleanup: func() { W = nil },
		}
		st := mc.Explore(h, mc.Options{Bound: 0, AllCost: true, MaxSteps: 20000, Report: func(v mc.Viol, c []int, tr []string) {
			fmt.Println("harness infrastructure error: binding scenario did not finish:", v.Key, v.Desc)
			os.Exit(2)
		}})
		_ = st
		for _, l := range lines {
			fmt.Println(l)
			ev.Add("evaluations", 1)
		}
		fmt.Printf("BIND %s final %s\n", sc.Name, w.digest())
		ev.Distinct(sc.Name)
	}
	ev.Rule = "binding battery on the rewritten build"
	ev.Sample("battery: management, local upgrade under two defaults, policy, reload to other directory/default")
	ev.Finish()
}
