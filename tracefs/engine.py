"""tracefs engine: run the driver under strace, replay the trace in the FS model, validate
the model against the real directory, enumerate crash states (DESIGN.md 2.4)."""
import os, json, base64, itertools, subprocess, copy
import strace
from fsmodel import FS, ModelError, tree_key


class TraceError(Exception):
    pass


def b64(b):
    return base64.b64encode(b).decode()


class Run:
    pass


def run_driver(drv, workdir, script, tag='t', inject=None):
    """script: dict for the driver; returns Run(calls, report, rc)"""
    sp = os.path.join(workdir, 'script-%s.json' % tag)
    rp = os.path.join(workdir, 'report-%s.json' % tag)
    tp = os.path.join(workdir, 'trace-%s.txt' % tag)
    script = dict(script, report=rp)
    with open(sp, 'w') as f:
        json.dump(script, f)
    if os.path.exists(rp):
        os.unlink(rp)
    env = dict(os.environ, GOMAXPROCS='1')
    rc, out, err = strace.run([drv, sp], tp, inject=inject, env=env)
    r = Run()
    r.rc, r.stderr, r.trace_path = rc, err.decode(errors='replace'), tp
    r.calls = strace.parse(tp)
    r.report = json.load(open(rp)) if os.path.exists(rp) else None
    return r


def marks(calls):
    """yield (index, tag) for the driver's marker calls; also returns main tid"""
    out = []
    tid = None
    for i, c in enumerate(calls):
        if c.name == 'faccessat' and len(c.args) > 1:
            p = strace.unq(c.args[1])
            if p and p.startswith(b'/MARK/'):
                out.append((i, p[6:].decode()))
                tid = c.tid
    return out, tid


def snap_to_tree(snap):
    """driver snapshot (verifx.Snap, base64 values) -> {rel: bytes | None}"""
    t = {}
    for k, v in snap.items():
        v = base64.b64decode(v)
        if k.endswith('/'):
            t[k[:-1]] = None
        elif v[:1] == b'=':
            t[k] = v[1:]
        elif v[:1] == b'@':
            t[k] = ('l', v[1:].decode())
        else:
            t[k] = v
    return t


class Point:
    __slots__ = ('i', 'op', 'phase', 'desc', 'call', 'kill', 'power', 'acked')


def apply_pend(durable, pend, upto, torn=None):
    d = bytearray(durable)
    for j, p in enumerate(pend[:upto]):
        if p[0] == 't':
            if p[1] < len(d):
                del d[p[1]:]
            else:
                d.extend(b'\0' * (p[1] - len(d)))
        else:
            _, off, data = p
            if torn is not None and j == upto - 1:
                data = data[:torn]
            if len(d) < off:
                d.extend(b'\0' * (off - len(d)))
            d[off:off + len(data)] = data
    return bytes(d)


def power_states(fs, cap=4096):
    """all post-power-loss images: durable namespace + any subset of pending directory
    operations (in order) x per inode: durable data + any prefix of its pending writes
    (+ last write torn in half).  Returns (list of (tree, label), capped?)"""
    pend = fs.pending
    n = len(pend)
    capped = False
    subsets = range(1 << n)
    if (1 << n) > cap:
        capped = True
        subsets = list(range(cap // 2)) + list(range((1 << n) - cap // 2, 1 << n))
    seen = {}
    for mask in subsets:
        names = dict(fs.dnames)
        chosen = []
        for j, op in enumerate(pend):
            if mask >> j & 1:
                fs.persist(op, names)
                chosen.append(repr(op))
        # drop entries whose parent directory does not exist in this image
        for p in sorted(names):
            par = os.path.dirname(p)
            if p != fs.root and par not in names:
                del names[p]
        inos = sorted({i for p, i in names.items() if fs.inodes[i].kind == 'f' and fs.inodes[i].pend})
        variants = []
        for i in inos:
            node = fs.inodes[i]
            vs = [(node.durable, 'durable')]
            for k in range(1, len(node.pend) + 1):
                vs.append((apply_pend(node.durable, node.pend, k), 'pending-writes[:%d]' % k))
                last = node.pend[k - 1]
                if last[0] == 'w' and len(last[2]) > 1:
                    vs.append((apply_pend(node.durable, node.pend, k, torn=len(last[2]) // 2), 'pending-writes[:%d] torn' % k))
            variants.append(vs)
        for combo in itertools.product(*variants) if variants else [()]:
            content = {}
            labels = []
            for i, (data, lab) in zip(inos, combo):
                content[i] = data
                labels.append('inode%d:%s' % (i, lab))
            # inodes without pending writes: durable == data
            for p, i in names.items():
                node = fs.inodes[i]
                if node.kind == 'f' and i not in content:
                    content[i] = node.durable
            t = fs.tree(names, content)
            k = tree_key(t)
            if k not in seen:
                seen[k] = (t, 'persisted dir ops {%s}; %s' % (', '.join(chosen), '; '.join(labels)))
    return list(seen.values()), capped


def torn_points(n):
    ks = {1, n // 2, n - 1}
    ks.update(range(4096, n, 4096))
    return sorted(k for k in ks if 0 < k < n)


def replay(root, fs, run, want_power=True, on_access=None):
    """replays run.calls (main thread, between START and END) on fs.
    Returns (points, stats).  fs must have been created BEFORE the driver ran."""
    mk, tid = marks(run.calls)
    if not mk or mk[0][1] != 'START':
        raise TraceError('no START mark in trace (driver failed?)\n' + run.stderr[-2000:])
    start = mk[0][0]
    points = []
    cur_op, phase = None, 'pre'
    acked = {}
    stats = {'validated': 0, 'calls': 0, 'mutations': 0, 'capped': False, 'foreign': 0}
    for idx in range(start + 1, len(run.calls)):
        c = run.calls[idx]
        foreign = c.tid != tid
        if foreign and c.name == 'faccessat' and (strace.unq(c.args[1]) or b'').startswith(b'/MARK/'):
            raise TraceError('marker call from a second thread (the driver pins its goroutine to one thread)')
        if c.name == 'faccessat':
            p = strace.unq(c.args[1]) or b''
            if p.startswith(b'/MARK/'):
                tag = p[6:].decode()
                if tag.startswith('B:'):
                    cur_op, phase = int(tag[2:]), 'in'
                elif tag.startswith('E:'):
                    _, i, ok = tag.split(':')
                    acked[int(i)] = (ok == 'ok')
                    phase = 'after'
                    # binding: the model's volatile tree must equal the real directory
                    if run.report is not None:
                        rep = [r for r in run.report if r['i'] == int(i)]
                        if rep and rep[0].get('snap') is not None:
                            real = snap_to_tree(rep[0]['snap'])
                            model = fs.tree()
                            if tree_key(real) != tree_key(model):
                                diff = sorted(set(real) ^ set(model)) + [k for k in real if k in model and real[k] != model[k]]
                                raise TraceError('FS model diverges from the real directory after step %s: %s' % (i, diff[:6]))
                            stats['validated'] += 1
                    # the crash instant immediately after the acknowledgement is a point of its own
                    pt = Point()
                    pt.i, pt.op, pt.phase, pt.desc, pt.call = idx, int(i), 'after', 'acknowledgement of step %s' % i, c
                    pt.acked = dict(acked)
                    pt.kill = [(fs.tree(), 'at acknowledgement')]
                    pt.power = []
                    if want_power:
                        pt.power, capped = power_states(fs)
                        stats['capped'] = stats['capped'] or capped
                    points.append(pt)
                elif tag == 'END':
                    break
                continue
        stats['calls'] += 1
        pre = None
        if c.name in ('write', 'pwrite64', 'copy_file_range', 'writev', 'sendfile') and c.ret and c.ret > 1:
            fdn = int(c.args[0] if c.name != 'copy_file_range' else c.args[2])
            fd = fs.fds.get(fdn)
            if fd and fd.get('ino') is not None:
                pre = (fd['ino'], bytes(fs.inodes[fd['ino']].data), fs.tree())
        try:
            mut, desc, paths = fs.apply(c)
        except ModelError as e:
            raise TraceError('model error at trace line %d: %s' % (c.lineno, e))
        if foreign:
            # other threads of the driver process: the Go runtime's own threads never touch the tree;
            # code under test that hands file-system work to a goroutine does.  Such calls are applied
            # in the order of their completion like all others and counted.
            if mut or desc:
                stats['foreign'] += 1
            elif not any(p and str(p).startswith(root) for p in paths):
                continue
        if on_access:
            on_access(cur_op, phase, c, mut, desc, paths)
        if not mut:
            continue
        stats['mutations'] += 1
        pt = Point()
        pt.i, pt.op, pt.phase, pt.desc, pt.call = idx, cur_op, phase, desc, c
        pt.acked = dict(acked)
        pt.kill = [(fs.tree(), 'after ' + desc)]
        if pre is not None:
            ino, before, tree_before = pre
            after = bytes(fs.inodes[ino].data)
            rel = None
            for p, i in fs.names.items():
                if i == ino:
                    rel = os.path.relpath(p, root)
            if rel is not None:
                # torn write: a prefix of the written bytes reached the file
                # (the write appended/overwrote at one offset: find the changed region)
                L = c.ret
                off = len(before) if len(after) > len(before) and after[:len(before)] == before else None
                if off is None:
                    off = next((k for k in range(min(len(before), len(after))) if before[k] != after[k]), 0)
                for k in torn_points(L):
                    t = dict(tree_before)
                    t[rel] = before[:off] + after[off:off + k] + before[off + k:]
                    pt.kill.append((t, 'torn after %d of %d bytes of %s' % (k, L, desc)))
        if want_power:
            pt.power, capped = power_states(fs)
            stats['capped'] = stats['capped'] or capped
        else:
            pt.power = []
        points.append(pt)
    return points, stats, acked


def tree_to_state(id, tree):
    st = {'id': id, 'files': {}, 'dirs': [], 'links': {}}
    for rel, v in tree.items():
        if v is None:
            st['dirs'].append(rel)
        elif isinstance(v, tuple):
            st['links'][rel] = v[1]
        else:
            st['files'][rel] = b64(v)
    return st


def run_oracle(oracle_bin, workdir, trees, probes, default=1):
    """trees: {id: tree}; probes: list of (user bytes/str, pw bytes/str) -> {id: obs}"""
    def enc(x):
        return b64(x if isinstance(x, bytes) else x.encode())
    inp = {'scratch': os.path.join(workdir, 'oracle'), 'default': default,
           'states': [tree_to_state(i, t) for i, t in trees.items()],
           'probes': [[enc(u), enc(p)] for u, p in probes]}
    ip = os.path.join(workdir, 'oracle-in.json')
    with open(ip, 'w') as f:
        json.dump(inp, f)
    p = subprocess.run([oracle_bin, ip], stdout=subprocess.PIPE, stderr=subprocess.PIPE)
    if p.returncode != 0:
        raise TraceError('recovery oracle failed: ' + p.stderr.decode()[-2000:])
    res = json.loads(p.stdout)

    def key(u, pw):
        return enc(u) + '|' + enc(pw)
    return res, key, enc
