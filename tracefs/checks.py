"""Property checks built on the tracefs engine: C08 (crash atomicity), C09 (durability of
acknowledged changes), C15 (fault injection / read-only), C03 (path confinement)."""
import os, sys, json, shutil, base64, hashlib, time
import engine, strace
from fsmodel import FS, tree_key
from engine import TraceError

VERIF = os.path.dirname(os.path.dirname(os.path.abspath(__file__)))


class Env:
    """what a check needs: binaries, scratch, violation sink"""

    def __init__(self, ctx, pid, part, drv, oracle):
        self.ctx, self.pid, self.part, self.drv, self.oracle = ctx, pid, part, drv, oracle
        self.work = os.path.join(ctx.scratch, 'tracefs-' + part)
        os.makedirs(self.work, exist_ok=True)
        self.cov = {'evaluations': 0, 'states': 0, 'transitions': 0, 'traces_validated_against_impl': 0}
        self.distinct = set()
        self.samples = []
        self.notes = []
        self.exhaustive = True
        self.nviol = {}

    def violation(self, key, desc, replay):
        if key in self.nviol:
            self.nviol[key] += 1
            return
        self.nviol[key] = 1
        h = hashlib.sha256(key.encode()).hexdigest()[:10]
        path = os.path.join(self.ctx.replay_dir, '%s-%s-%s.json' % (self.pid, self.part, h))
        with open(path, 'w') as f:
            json.dump({'property': self.pid, 'part': self.part, 'key': key, 'description': desc, 'replay': replay}, f, indent=1, default=str)
        self.ctx.violations.append((key, path, desc.replace('\n', ' ')[:700]))

    def evidence(self, rule, assumptions):
        cov = dict(self.cov)
        cov['distinct_nontrivial'] = len(self.distinct)
        cov['rule'] = rule
        cov['samples'] = self.samples[:6]
        cov['exhaustive'] = self.exhaustive
        if self.notes:
            cov['notes'] = self.notes
        return {'coverage': cov, 'assumptions': assumptions}


# ---- building directory trees through the real library (driver without tracing) ------------

def build_tree(env, base, steps, files=None):
    """create base and run setup steps with the driver (untraced); then write raw files"""
    shutil.rmtree(base, ignore_errors=True)
    os.makedirs(base)
    if steps:
        sp = os.path.join(env.work, 'setup.json')
        with open(sp, 'w') as f:
            json.dump({'base': base, 'steps': steps, 'report': os.path.join(env.work, 'setup-report.json')}, f)
        import subprocess
        p = subprocess.run([env.drv, sp], stdout=subprocess.PIPE, stderr=subprocess.PIPE)
        rep = json.load(open(os.path.join(env.work, 'setup-report.json')))
        bad = [r for r in rep if not r['ok']]
        if p.returncode != 0 or bad:
            raise TraceError('setup steps failed: %s %s' % (bad, p.stderr.decode()[-500:]))
    for name, content in (files or {}).items():
        os.makedirs(os.path.dirname(os.path.join(base, name)), exist_ok=True)
        with open(os.path.join(base, name), 'wb') as f:
            f.write(content)


def append_aux(base, fname, aux):
    with open(os.path.join(base, fname), 'ab') as f:
        f.write(aux)


def read_tree(root):
    t = {}
    for dp, dns, fns in os.walk(root):
        for n in dns:
            t[os.path.relpath(os.path.join(dp, n), root)] = None
        for n in fns:
            with open(os.path.join(dp, n), 'rb') as f:
                t[os.path.relpath(os.path.join(dp, n), root)] = f.read()
    return t


def user_files(tree):
    return {k: v for k, v in tree.items() if not k.startswith('.tmp') and v is not None}


STD_SETUP = [{'op': 'add', 'user': 'root', 'pw': 'rootpw', 'admin': True},
             {'op': 'add', 'user': 'b', 'pw': 'bpw'},
             {'op': 'add', 'user': 'c', 'pw': 'cpw', 'default': 2},
             # a name that extends another user's name by a dot-separated part: operations on b must leave it alone
             {'op': 'add', 'user': 'b.x', 'pw': 'bxpw', 'admin': True}]


# =============================================================================================
# C08
# =============================================================================================

def c08(env, thorough):
    big = (100 if thorough else 12) * 1024
    aux3 = b'totp: JBSWY3DPEHPK3PXP\nu2f: \x00\xff binary\nthird line\n'
    histories = [
        ('init', [], {}, {'op': 'init', 'user': 'root', 'pw': 'rootpw'}, 'root.admin', None),
        ('add-user', STD_SETUP, {}, {'op': 'add', 'user': 'a', 'pw': 'newpw'}, 'a.user', None),
        ('add-admin', STD_SETUP, {}, {'op': 'add', 'user': 'a', 'pw': 'newpw', 'admin': True}, 'a.admin', None),
        ('update-noaux', STD_SETUP, {}, {'op': 'update', 'user': 'b', 'pw': 'newpw'}, 'b.user', b''),
        ('update-aux3', STD_SETUP, {}, {'op': 'update', 'user': 'b', 'pw': 'newpw'}, 'b.user', aux3),
        ('update-bigaux', STD_SETUP, {}, {'op': 'update', 'user': 'b', 'pw': 'newpw'}, 'b.user', (b'x' * 1023 + b'\n') * (big // 1024)),
        ('update-aux-nonl', STD_SETUP, {}, {'op': 'update', 'user': 'b', 'pw': 'newpw'}, 'b.user', b'line1\nno newline at end'),
        ('update-admin-otherdefault', STD_SETUP, {}, {'op': 'update', 'user': 'root', 'pw': 'newpw', 'default': 2}, 'root.admin', b'aux\n'),
    ]
    # the permitted residue of an earlier crash - leftover temporary files in the work area, also under
    # names derived from the user - must not influence a later operation
    stale = b'argon2id:1600000000:1:c3RhbGVzYWx0c3RhbGU=:' + b'U1RBTEU' * 300 + b'\nstale aux line 1\nstale aux line 2\n'
    leftovers = {'.tmp/' + n: stale for n in ('a', 'b', 'a.user', 'b.user', 'a.admin', 'root', 'root.admin', '000000', 'whawty-auth-')}
    histories += [
        ('add-with-leftovers', STD_SETUP, leftovers, {'op': 'add', 'user': 'a', 'pw': 'newpw'}, 'a.user', None),
        ('update-with-leftovers', STD_SETUP, leftovers, {'op': 'update', 'user': 'b', 'pw': 'newpw'}, 'b.user', b'aux\n'),
        ('update-admin-with-leftovers', STD_SETUP, leftovers, {'op': 'update', 'user': 'root', 'pw': 'newpw'}, 'root.admin', b''),
    ]
    # the commit step itself fails (rename answers EXDEV / EIO): whatever the code does instead, a crash
    # during it must still leave the old or the new complete record
    for errno in ('EXDEV', 'EIO'):
        histories += [
            ('update-rename-fails-%s' % errno, STD_SETUP, {}, {'op': 'update', 'user': 'b', 'pw': 'newpw'}, 'b.user', aux3, 'renameat:' + errno),
            ('add-rename-fails-%s' % errno, STD_SETUP, {}, {'op': 'add', 'user': 'a', 'pw': 'newpw'}, 'a.user', None, 'renameat:' + errno),
        ]
    # auxiliary data around the usual buffer sizes (a record that just fits / just exceeds a 4 KiB or 64 KiB buffer)
    sizes = [4000, 4023, 4024, 4025, 4096, 8192] + ([32768, 65535, 65536, 65537] if thorough else [])
    for n in sizes:
        histories.append(('update-aux-%d' % n, STD_SETUP, {}, {'op': 'update', 'user': 'b', 'pw': 'newpw'}, 'b.user', bytes((i * 31 + 7) % 251 for i in range(n))))
    for hist in histories:
        name, setup, files, step, target, aux = hist[:6]
        fault = hist[6] if len(hist) > 6 else None
        base = os.path.join(env.work, 'c08', 'store')

        def fresh():
            build_tree(env, base, setup, files)
            if aux:
                append_aux(base, target, aux)
        fresh()
        inject = None
        if fault:
            # position of the first rename inside the operation, from a fault-free run
            call, errno = fault.split(':')
            run0 = engine.run_driver(env.drv, env.work, {'base': base, 'snap': True, 'steps': [step]}, tag='c08b')
            mk0, tid0 = engine.marks(run0.calls)
            b0 = [i for i, t in mk0 if t == 'B:0'][0]
            nth = 0
            for i, c in enumerate(run0.calls):
                if c.name == call:
                    nth += 1
                    if i > b0 and c.tid == tid0:
                        break
            inject = '%s:error=%s:when=%d' % (call, errno, nth)
            fresh()
        f0 = read_tree(base)
        fs = FS(base)
        run = engine.run_driver(env.drv, env.work, {'base': base, 'snap': True, 'steps': [step]}, tag='c08', inject=inject)
        if fault:
            if run.report is None or len([c for c in run.calls if c.injected]) != 1:
                raise TraceError('history %s: the injected failure did not land: %s' % (name, run.stderr[-300:]))
        elif run.report is None or not run.report[0]['ok']:
            raise TraceError('history %s: operation failed on the unchanged path: %s %s' % (name, run.report, run.stderr[-500:]))
        op_ok = bool(run.report[0]['ok'])
        points, stats, acked = engine.replay(base, fs, run)
        env.cov['traces_validated_against_impl'] += stats['validated']
        if stats['capped']:
            env.exhaustive = False
            env.notes.append('history %s: power-loss subset cap hit' % name)
        f1 = engine.snap_to_tree(run.report[0]['snap'])
        kind = step['op']
        user = step['user']
        oldpw = {'b': 'bpw', 'root': 'rootpw'}.get(user, None) if kind == 'update' else None
        # what "the complete new record" is does not depend on the implementation: one new record line
        # followed by exactly the auxiliary bytes the old file carried
        new_line, _, new_rest = f1.get(target, b'').partition(b'\n')
        old_line, _, old_rest = f0.get(target, b'').partition(b'\n')
        if not op_ok:
            # the operation reported its failure: the record must be what it was
            if f1.get(target) != f0.get(target):
                env.violation('failed-operation-changed-record:%s' % kind, '[history %s] the operation reported failure but %s differs from its previous content' % (name, target), {'history': name, 'step': step})
        elif len(new_line.split(b':')) != 5 or new_line == old_line or (kind == 'update' and new_rest != old_rest) or (kind != 'update' and new_rest != b''):
            env.violation('completed-record-wrong:%s' % kind,
                          '[history %s] the record the completed operation left in %s is not "new record line + the %d auxiliary bytes of the old file": %d bytes follow the first line (first difference near byte %d), first line %r' % (
                              name, target, len(old_rest), len(new_rest), next((i for i in range(min(len(new_rest), len(old_rest))) if new_rest[i] != old_rest[i]), min(len(new_rest), len(old_rest))), new_line[:40]),
                          {'history': name, 'step': step})
        # collect distinct crash trees
        trees = {}
        meta = {}
        for pt in points:
            env.cov['transitions'] += 1
            for model, lst in (('kill', pt.kill), ('power', pt.power)):
                for t, label in lst:
                    k = tree_key(t)
                    if k not in trees:
                        trees[k] = t
                        meta[k] = (model, pt.desc, label)
        env.cov['states'] += len(trees)
        env.cov['evaluations'] += len(trees)
        newpw = step['pw']
        probes = [(user, newpw), (user, 'third-password'), ('root', 'rootpw'), ('b', 'bpw'), ('c', 'cpw')]
        if oldpw:
            probes.append((user, oldpw))
        ref, key, enc = engine.run_oracle(env.oracle, env.work, dict(trees, F0=f0), probes)
        check0 = ref['F0']['check'] == ''
        for k, t in trees.items():
            model, pdesc, label = meta[k]
            pdesc, label = pdesc.replace(base + '/', ''), label.replace(base + '/', '')
            o = ref[k]

            def viol(kindv, msg):
                env.violation('%s:%s:%s' % (kindv, kind, model),
                              '[history %s, %s model] crash %s (%s): %s' % (name, model, pdesc, label, msg),
                              {'history': name, 'step': step, 'model': model, 'point': pdesc, 'state': label,
                               'tree': {r: (None if v is None else base64.b64encode(v).decode()) for r, v in t.items() if not isinstance(v, tuple)}})
            if o.get('panic'):
                viol('recovery-panic', 'store code panicked on the post-crash directory: ' + o['panic'])
                continue
            cur = t.get(target)
            newfile = f1.get(target) if op_ok else None   # an operation that reported failure has no "new" record
            allowed = [newfile] if newfile is not None else []
            if kind in ('add', 'init'):
                allowed += [None, b'']
                if target in f0:
                    allowed.append(f0[target])
            else:
                allowed.append(f0[target])
            which = 'other'
            if target not in t:
                cur = None
                which = 'absent'
            elif cur == b'':
                which = 'empty'
            elif newfile is not None and cur == newfile:
                which = 'new'
            elif target in f0 and cur == f0[target]:
                which = 'old'
            if (cur if target in t else None) not in allowed:
                viol('record-neither-old-nor-new', 'file %s has %d bytes: neither absent/empty, the complete old record nor the complete new record (first bytes %r)' % (target, len(cur or b''), (cur or b'')[:60]))
            # other users untouched; only residue under .tmp
            for r, v in user_files(f0).items():
                if r != target and t.get(r) != v:
                    viol('other-file-changed', 'file %s of another user differs from its pre-operation content' % r)
            for r, v in t.items():
                if r == target or r == '.tmp' or r.startswith('.tmp/'):
                    if r.startswith('.tmp/') and v is None:
                        viol('residue-outside-rules', 'directory %s appeared in the work area' % r)
                    continue
                if r not in f0:
                    viol('residue-outside-rules', 'unexpected object %s outside the work area' % r)
            if check0 and o['check'] != '':
                viol('check-broken', 'the store passed the consistency check before the operation, the post-crash directory does not: ' + o['check'])
            a_new = o['auth'][key(user, newpw)][0]
            a_third = o['auth'][key(user, 'third-password')][0]
            if a_third:
                viol('third-password-works', 'a password that was never set authenticates')
            if a_new != (which == 'new'):
                viol('new-password-inconsistent', 'new password verifies=%s but file is %s' % (a_new, which))
            if oldpw:
                a_old = o['auth'][key(user, oldpw)][0]
                if a_old != (which == 'old'):
                    viol('old-password-inconsistent', 'old password verifies=%s but file is %s' % (a_old, which))
                if not a_old and not a_new:
                    viol('no-password-works', 'neither the old nor the new password works')
            for u, p in (('root', 'rootpw'), ('b', 'bpw'), ('c', 'cpw')):
                if u != user and (u + ('.admin' if u == 'root' else '.user')) in f0 and not o['auth'][key(u, p)][0]:
                    viol('other-user-broken', 'user %s no longer authenticates' % u)
            env.distinct.add((name, model, which, o['check'] == '', a_new))
        env.samples.append({'history': name, 'mutation_points': len(points), 'distinct_crash_states': len(trees),
                            'example_state': meta[next(iter(trees))][1:] if trees else None})
    return env.evidence(
        'per history (init; add user/admin; update without aux, with 3 aux lines, with large aux, aux without final newline, admin under another default): '
        'the real operation is traced; at every mutating system call: process-kill image incl. writes torn at 1 byte / half / len-1 / every 4096 bytes, and every power-loss image '
        '(durable namespace + every subset of pending directory operations x every prefix of pending writes per file, last write torn); each distinct image judged byte-wise and by the recovery oracle (fresh store.Dir); '
        'distinct = distinct (history, model, file class old/new/empty/absent, check verdict, new-password verdict)',
        ['persistence model: file data durable only after fsync of the file, directory entry changes only after fsync of their directory, rename atomic, un-fsynced directory operations lost independently',
         'the FS model is validated against the real directory at every operation boundary (traces_validated_against_impl)'])


# =============================================================================================
# C09
# =============================================================================================

def c09(env, thorough):
    h1 = [
        {'op': 'init', 'user': 'root', 'pw': 'rootpw'},
        {'op': 'add', 'user': 'a', 'pw': 'p1'},
        {'op': 'update', 'user': 'a', 'pw': 'p2'},
        {'op': 'setadmin', 'user': 'a', 'admin': True},
        {'op': 'setadmin', 'user': 'a', 'admin': False},
        {'op': 'remove', 'user': 'a'},
        {'op': 'add', 'user': 'a', 'pw': 'p3', 'admin': True},
        {'op': 'update', 'user': 'root', 'pw': 'rootpw2', 'default': 2},
        {'op': 'setadmin', 'user': 'root', 'admin': False},
        {'op': 'remove', 'user': 'root'},
        {'op': 'add', 'user': 'd', 'pw': 'p4', 'admin': True},
        {'op': 'remove', 'user': 'a'},      # removal of an administrator record
    ]
    # second history: records that carry auxiliary data (the acknowledged record includes it)
    h2 = [
        {'op': 'update', 'user': 'b', 'pw': 'bnew'},
        {'op': 'update', 'user': 'root', 'pw': 'rootnew', 'default': 2},
        {'op': 'setadmin', 'user': 'b', 'admin': True},
        {'op': 'update', 'user': 'b', 'pw': 'bnew2', 'default': 3},
        {'op': 'remove', 'user': 'c'},
        {'op': 'add', 'user': 'c', 'pw': 'cnew'},
        {'op': 'update', 'user': 'c', 'pw': 'cnew2'},
        {'op': 'remove', 'user': 'b'},      # an administrator with auxiliary data
        {'op': 'remove', 'user': 'nobody'},  # removal of a user that does not exist
    ]
    aux = {'b.user': b'totp: JBSWY3DPEHPK3PXP\nsecond line\nlast line without newline', 'root.admin': (b'x' * 1023 + b'\n') * 9}
    _c09_history(env, 'from-empty', [], {}, h1, {})
    _c09_history(env, 'with-aux-data', STD_SETUP, aux, h2, {'root': ('rootpw', True), 'b': ('bpw', False), 'c': ('cpw', False)})
    return env.evidence(
        'two traced histories without any harness sync: (1) init, add, update, set-admin(true), set-admin(false), remove, add(admin), update(other default), demotion and removal of the last admin, add(admin), removal of an admin on an initially empty directory; '
        '(2) updates / set-admin / remove (user, admin, missing user) / add on a store whose records carry auxiliary data (3 lines without final newline; 9 KiB). At every acknowledgement and at every later mutating system call: every power-loss image '
        '(every subset of pending directory operations x every prefix of pending writes); each image must show every acknowledged operation: observed through a fresh store.Dir AND byte-exact against the file the operation acknowledged; '
        'distinct = distinct (history, acknowledged prefix, phase, observed abstract state)',
        ['persistence model as in C08; operations in progress may show either their old or new state (their intermediate states are judged by C08)'])


def _c09_history(env, hname, setup, auxfiles, steps, initial, inject=None):
    base = os.path.join(env.work, 'c09', 'store')
    for delayed in (False, True):
        build_tree(env, base, setup, {})
        for fn, data in auxfiles.items():
            append_aux(base, fn, data)
        snap0 = user_files(read_tree(base))
        fs = FS(base)
        # (second round only) the code under test left file-system work to another thread: every fsync
        # is held for 0.3 s on entry, which tells an operation that waits for its helper (the
        # acknowledgement is delayed as well) from one that does not (the flush completes after it)
        inj = inject if not delayed else 'fsync:delay_enter=300000'
        run = engine.run_driver(env.drv, env.work, {'base': base, 'snap': True, 'steps': steps}, tag='c09', inject=inj)
        if inject:
            # one injected failure: the run counts only if the fault landed inside the (single) operation
            injc = [c for c in run.calls if c.injected]
            mk2, tid2 = engine.marks(run.calls)
            bi = [i for i, t in mk2 if t == 'B:0']
            ei = [i for i, t in mk2 if t.startswith('E:0')]
            if not (len(injc) == 1 and run.report is not None and bi and ei and bi[0] < run.calls.index(injc[0]) < ei[0] and injc[0].tid == tid2):
                return 'not-landed'
            if any(not r['ok'] for r in run.report):
                return 'reported-failure'   # nothing was acknowledged: durability has nothing to say (C15 judges failures)
        elif run.report is None or any(not r['ok'] for r in run.report):
            raise TraceError('C09 history %s failed on the unchanged path: %s' % (hname, [(r['i'], r.get('err')) for r in (run.report or []) if not r['ok']]))
        points, stats, acked = engine.replay(base, fs, run)
        if stats['foreign'] and not delayed and not inject:
            env.notes.append('history %s: %d file-system calls on the store came from another thread of the process; history repeated with delayed fsync' % (hname, stats['foreign']))
            continue
        break
    env.cov['traces_validated_against_impl'] += stats['validated']
    if stats['capped']:
        env.exhaustive = False
    # expected abstract states E_k and expected file contents S_k (after ops 0..k)
    E, S = [], []
    cur = dict(initial)
    for i, s in enumerate(steps):
        cur = dict(cur)
        u = s['user']
        if s['op'] in ('init', 'add'):
            cur[u] = (s['pw'], s.get('admin', s['op'] == 'init'))
        elif s['op'] == 'update':
            cur[u] = (s['pw'], cur[u][1])
        elif s['op'] == 'setadmin':
            cur[u] = (cur[u][0], s['admin'])
        elif s['op'] == 'remove':
            cur.pop(u, None)
        E.append(cur)
        S.append(user_files(engine.snap_to_tree(run.report[i]['snap'])))
    ksfx = (':after-failed-' + hname.rsplit(':', 1)[-1]) if inject else ''   # fault runs have keys of their own
    pws = sorted({s['pw'] for s in steps if 'pw' in s} | {v[0] for v in initial.values()})
    users = sorted({s['user'] for s in steps} | set(initial))
    probes = [(u, p) for u in users for p in pws]
    trees, where = {}, {}
    for pt in points:
        pt.desc = pt.desc.replace(base + '/', '')
        env.cov['transitions'] += 1
        k_acked = max([i for i, ok in pt.acked.items() if ok], default=-1)
        for t, label in pt.power:
            k = tree_key(t)
            trees.setdefault(k, t)
            where.setdefault(k, []).append((pt, label, k_acked))
    env.cov['states'] += len(trees)
    ref, key, enc = engine.run_oracle(env.oracle, env.work, trees, probes)

    def owner(fn):
        return fn.rsplit('.', 1)[0]
    for k, occ in where.items():
        o = ref[k]
        t = user_files(trees[k])
        obs = {}
        for u in users:
            ex, adm = o['exists'][enc(u)]
            if ex:
                good = [p for p in pws if o['auth'][key(u, p)][0]]
                obs[u] = (good[0] if len(good) == 1 else ('?%d' % len(good)), adm)
        for pt, label, k_acked in occ:
            label = label.replace(base + '/', '')
            env.cov['evaluations'] += 1
            op_in_progress = pt.op if pt.phase == 'in' and pt.op not in pt.acked else None
            exp = E[k_acked] if k_acked >= 0 else dict(initial)
            expfiles = S[k_acked] if k_acked >= 0 else snap0
            busy = steps[op_in_progress]['user'] if op_in_progress is not None else None
            culprit = None
            for u in users:
                want, got = exp.get(u), obs.get(u)
                if got == want:
                    continue
                if busy == u:
                    alt = E[op_in_progress].get(u)
                    if got == alt:
                        continue
                    if steps[op_in_progress]['op'] in ('add', 'update', 'init') and (got is None or str(got[0]).startswith('?')):
                        continue  # absent / reservation / partial record: C08 judges these
                culprit = (u, want, got)
            # byte-exact: every file acknowledged so far is present with exactly the acknowledged bytes
            bculprit = None
            for fn, data in expfiles.items():
                if busy is not None and owner(fn) == busy:
                    continue
                if t.get(fn) != data:
                    have = t.get(fn)
                    bculprit = (fn, None if have is None else len(have), len(data))
            # "a new record never becomes visible under its final name before its content is durable":
            # the busy user's file is the previous record, the new record, absent, or (add) an empty reservation
            vculprit = None
            if busy is not None:
                nxt = S[op_in_progress]
                for fn, have in t.items():
                    if owner(fn) != busy:
                        continue
                    allowed = [expfiles.get(fn), nxt.get(fn)]
                    if steps[op_in_progress]['op'] in ('add', 'init'):
                        allowed.append(b'')
                    if have not in [a for a in allowed if a is not None]:
                        vculprit = (fn, len(have), [len(a) for a in allowed if a is not None])
            env.distinct.add((hname, k_acked, pt.phase, json.dumps(sorted(obs.items()), default=str)))
            replay = {'history': steps, 'point': pt.desc, 'state': label, 'acked_upto': k_acked,
                      'tree': {r: (None if v is None else base64.b64encode(v).decode()) for r, v in trees[k].items() if not isinstance(v, tuple)}}
            if culprit:
                u, want, got = culprit
                lost = next((j for j in range(k_acked, -1, -1) if steps[j]['user'] == u), None)
                opk = steps[lost]['op'] if lost is not None else '?'
                env.violation('acknowledged-change-lost:%s%s' % (opk, ksfx),
                              '[history %s, power-loss model] crash %s (%s): operations 0..%d were acknowledged, so user %s must be %s, but the post-crash store shows %s. Lost acknowledged operation: #%s %s'
                              % (hname, pt.desc, label, k_acked, u, want, got, lost, steps[lost] if lost is not None else None), replay)
            elif vculprit:
                fn, have, allowed = vculprit
                env.violation('final-name-visible-before-content-durable:%s%s' % (steps[op_in_progress]['op'], ksfx),
                              '[history %s, power-loss model] crash %s (%s) during operation #%d %s: file %s is visible under its final name with %d bytes, which is neither the previous nor the complete new record (%s bytes)'
                              % (hname, pt.desc, label, op_in_progress, steps[op_in_progress], fn, have, allowed), replay)
            elif bculprit:
                fn, have, want = bculprit
                lost = next((j for j in range(k_acked, -1, -1) if steps[j]['user'] == owner(fn)), None)
                opk = steps[lost]['op'] if lost is not None else 'initial'
                env.violation('acknowledged-record-not-durable:%s%s' % (opk, ksfx),
                              '[history %s, power-loss model] crash %s (%s): operations 0..%d were acknowledged; file %s must hold exactly the %d acknowledged bytes (record + auxiliary data) but the post-crash store has %s bytes'
                              % (hname, pt.desc, label, k_acked, fn, want, have), replay)
    if not inject or hname.endswith('#1'):
        env.samples.append({'history': hname, 'steps': [s['op'] + ':' + s['user'] for s in steps], 'mutation_points': len(points), 'distinct_power_loss_states': len(trees)})
    return 'acknowledged'


def c09_faults(env, thorough):
    """an operation that reports success although one of its fsync calls failed has still acknowledged the
    change: every power-loss image at (and after) the acknowledgement must show it"""
    aux = {'b.user': b'aux line 1\naux line 2\n'}
    initial = {'root': ('rootpw', True), 'b': ('bpw', False), 'c': ('cpw', False)}
    ops = [
        ('init', [], {}, {}, {'op': 'init', 'user': 'root', 'pw': 'rootpw'}),
        ('add', STD_SETUP, aux, initial, {'op': 'add', 'user': 'a', 'pw': 'newpw'}),
        ('update', STD_SETUP, aux, initial, {'op': 'update', 'user': 'b', 'pw': 'newpw'}),
        ('setadmin', STD_SETUP, aux, initial, {'op': 'setadmin', 'user': 'b', 'admin': True}),
        ('remove', STD_SETUP, aux, initial, {'op': 'remove', 'user': 'b'}),
    ]
    outcomes = {}
    for opname, setup, auxf, init, step in ops:
        base = os.path.join(env.work, 'c09', 'store')
        build_tree(env, base, setup, {})
        for fn, data in auxf.items():
            append_aux(base, fn, data)
        run0 = engine.run_driver(env.drv, env.work, {'base': base, 'snap': True, 'steps': [step]}, tag='c09b')
        if run0.report is None or not run0.report[0]['ok']:
            raise TraceError('C09 fault baseline %s failed: %s' % (opname, run0.report))
        mk, tid = engine.marks(run0.calls)
        b = [i for i, t in mk if t == 'B:0'][0]
        e = [i for i, t in mk if t.startswith('E:0')][0]
        # the calls whose failure an operation could swallow: the flushes and the opening of the directory to flush
        count, window = {}, []
        for i, c in enumerate(run0.calls):
            if c.name in ('fsync', 'openat', 'close'):
                count[c.name] = count.get(c.name, 0) + 1
                if b < i < e and c.tid == tid:
                    window.append((c.name, count[c.name], sum(1 for w in window if w[0] == c.name) + 1))
        for name, nth, k in window:
            for errno in {'fsync': ('EIO', 'ENOSPC'), 'openat': ('EMFILE', 'EIO'), 'close': ('EIO',)}[name]:
                res = 'not-landed'
                for attempt in range(4):
                    res = _c09_history(env, 'fault:%s:%s#%d' % (opname, name, k), setup, auxf, [step], init, inject='%s:error=%s:when=%d' % (name, errno, nth))
                    if res != 'not-landed':
                        break
                if res == 'not-landed':
                    raise TraceError('%s fault #%d into %s did not land inside the operation window in 4 attempts' % (name, k, opname))
                outcomes['%s:%s#%d:%s' % (opname, name, k, errno)] = res
                env.distinct.add((opname, name, k, errno, res))
                env.cov['fault_runs'] = env.cov.get('fault_runs', 0) + 1
    env.samples.append({'outcome_per_failed_fsync': outcomes})
    return env.evidence(
        'for each of init, add, update, set-admin, remove: every fsync (EIO, ENOSPC), every openat (EMFILE, EIO) and every close (EIO) of the operation fails once (strace inject, position verified); if the operation still reports success, every power-loss image at its acknowledgement '
        '(every subset of pending directory operations x every prefix of pending writes, the failed fsync having made nothing durable) must show the acknowledged change (abstract + byte-exact oracle of the durability part); '
        'operations that report the failure are outside this property (C15)',
        ['single fault per run', 'a failed fsync makes nothing durable (the kernel may have written some of it: those states are a subset of the images explored)'])


# =============================================================================================
# C15
# =============================================================================================

ERRNOS = {
    'openat': ['ENOSPC', 'EIO', 'EACCES', 'EMFILE'],
    'mkdirat': ['ENOSPC', 'EIO', 'EACCES'],
    'write': ['ENOSPC', 'EIO'],
    'read': ['EIO'],
    'copy_file_range': ['ENOSPC', 'EIO'],
    'fsync': ['ENOSPC', 'EIO'],
    'renameat': ['ENOSPC', 'EIO', 'EACCES'],
    'unlinkat': ['EIO', 'EACCES'],
    'newfstatat': ['EIO', 'EACCES'],
    'close': ['EIO'],
    'getdents64': ['EIO'],
}


def copy_tree(src, dst):
    shutil.rmtree(dst, ignore_errors=True)
    shutil.copytree(src, dst, symlinks=True)


def c15_faults(env, thorough):
    tmpl = os.path.join(env.work, 'c15', 'tmpl')
    build_tree(env, tmpl, STD_SETUP + [{'op': 'update', 'user': 'b', 'pw': 'bpw'}], {})
    append_aux(tmpl, 'b.user', b'aux line 1\naux line 2\n')
    ops = [
        ('init', None, {'op': 'init', 'user': 'root', 'pw': 'rootpw'}),
        ('add', tmpl, {'op': 'add', 'user': 'a', 'pw': 'newpw'}),
        ('update', tmpl, {'op': 'update', 'user': 'b', 'pw': 'newpw'}),
        ('setadmin', tmpl, {'op': 'setadmin', 'user': 'b', 'admin': True}),
        ('remove', tmpl, {'op': 'remove', 'user': 'b'}),
    ]
    base = os.path.join(env.work, 'c15', 'store')
    nruns = 0
    for opname, src, step in ops:
        def fresh():
            if src:
                copy_tree(src, base)
            else:
                shutil.rmtree(base, ignore_errors=True)
                os.makedirs(base)
        fresh()
        pre = user_files(read_tree(base))
        run0 = engine.run_driver(env.drv, env.work, {'base': base, 'snap': True, 'steps': [step]}, tag='c15b')
        if run0.report is None or not run0.report[0]['ok']:
            raise TraceError('C15 baseline %s failed: %s' % (opname, run0.report))
        mk, tid = engine.marks(run0.calls)
        b = [i for i, t in mk if t == 'B:0'][0]
        e = [i for i, t in mk if t.startswith('E:0')][0]
        # global occurrence index (over ALL threads, as strace counts) of every call in the window
        count = {}
        window = []
        renamed = False
        for i, c in enumerate(run0.calls):
            count[c.name] = count.get(c.name, 0) + 1
            if b < i < e and c.tid == tid and c.name in ERRNOS:
                paths = [strace.unq(a) for a in c.args if a.startswith('"')]
                if c.name == 'close' or c.name in ('write', 'read', 'fsync', 'copy_file_range', 'getdents64'):
                    paths = []
                inwin = sum(1 for w in window if w[0] == c.name)
                window.append((c.name, count[c.name], inwin, renamed, c.ret is not None and c.ret < 0))
                if c.name == 'renameat' and c.ret == 0:
                    renamed = True
        env.samples.append({'op': opname, 'syscalls_in_window': [w[0] for w in window]})
        for name, nth, inwin, after_rename, failed_anyway in window:
            for errno in ERRNOS[name]:
                # (the fault position is computed from the baseline trace; should another thread of
                # the driver process issue the same system call in between, the fault lands
                # elsewhere: that run is discarded and repeated)
                landed = False
                for attempt in range(4):
                    fresh()
                    run = engine.run_driver(env.drv, env.work, {'base': base, 'snap': True, 'steps': [step]}, tag='c15i',
                                            inject='%s:error=%s:when=%d' % (name, errno, nth))
                    inj = [c for c in run.calls if c.injected]
                    mk2, tid2 = engine.marks(run.calls)
                    bi = [i for i, t in mk2 if t == 'B:0']
                    ei = [i for i, t in mk2 if t.startswith('E:0')]
                    if len(inj) == 1 and run.report is not None and bi and ei and bi[0] < run.calls.index(inj[0]) < ei[0] and inj[0].tid == tid2:
                        landed = True
                        break
                nruns += 1
                env.cov['evaluations'] += 1
                if not landed:
                    raise TraceError('fault injection %s#%d %s into %s did not land inside the operation window in 4 attempts: %s' % (name, nth, errno, opname, run.stderr[-300:]))
                rep = run.report[0]
                after = user_files(engine.snap_to_tree(rep.get('snap') or {}))
                changed = after != pre
                where = 'after-rename' if after_rename else 'before-rename'
                env.distinct.add((opname, name, errno, rep['ok'], changed))
                if not rep['ok'] and changed:
                    diff = sorted(set(after) ^ set(pre)) + [k for k in after if k in pre and after[k] != pre[k]]
                    env.violation('failed-op-changed-store:%s:%s:%s' % (opname, where, name),
                                  '%s reported failure (%s) after %s #%d of the operation failed with %s, but the store changed outside the work area: %s'
                                  % (opname, rep.get('err'), name, inwin + 1, errno, diff),
                                  {'op': step, 'inject': '%s:error=%s:when=%d' % (name, errno, nth), 'occurrence_in_op': inwin + 1, 'diff': diff})
                if rep['ok']:
                    # the operation reports success although one of its system calls failed: then its effect
                    # must be the complete effect (target changed as the operation prescribes, the target's
                    # auxiliary data and every other file byte-identical)
                    prob = _c15_success_effect(opname, step, pre, after)
                    if prob:
                        env.violation('success-with-wrong-effect:%s:%s' % (opname, name),
                                      '%s reported success after %s #%d of the operation failed with %s, but %s' % (opname, name, inwin + 1, errno, prob),
                                      {'op': step, 'inject': '%s:error=%s:when=%d' % (name, errno, nth), 'occurrence_in_op': inwin + 1})
                if rep.get('err', '').startswith('PANIC'):
                    env.violation('panic-under-fault:%s:%s' % (opname, name), '%s panicked when %s failed with %s: %s' % (opname, name, errno, rep['err']),
                                  {'op': step, 'inject': '%s:error=%s:when=%d' % (name, errno, nth)})
    env.cov['fault_runs'] = nruns
    return env.evidence(
        'for each of init, add, update, set-admin, remove: EVERY occurrence of every file-system system call inside the operation (openat, mkdirat, write, read, copy_file_range, fsync, renameat, unlinkat, newfstatat, close, getdents64) x each applicable errno of {ENOSPC, EIO, EACCES, EMFILE}, one fault per run (strace inject, position verified to lie inside the operation window); '
        'oracle: an operation that reports failure leaves everything outside the work area byte-identical, one that reports success nevertheless has its complete effect (auxiliary data and all other files byte-identical); distinct = distinct (operation, syscall, errno, reported result, changed?)',
        ['single fault per run', 'fault positions are computed from a baseline trace of the identical deterministic driver and verified after each run'])


def _c15_success_effect(opname, step, pre, after):
    """pre/after: user files {name: bytes}.  Returns a description of what is wrong, or None."""
    u = step['user']
    tnames = (u + '.user', u + '.admin')
    for fn in set(pre) | set(after):
        if fn not in tnames and pre.get(fn) != after.get(fn):
            return 'file %s of another user changed' % fn
    old = [(fn, pre[fn]) for fn in tnames if fn in pre]
    new = [(fn, after[fn]) for fn in tnames if fn in after]
    if opname == 'remove':
        # (a removal that reports success without having removed anything - RemoveUser has no result,
        # see finding F3 - changes nothing, which is all this property asks of it)
        return None
    if len(new) != 1:
        return 'the user has %d record files afterwards' % len(new)
    nfn, ndata = new[0]
    nline, _, nrest = ndata.partition(b'\n')
    if len(nline.split(b':')) != 5:
        return 'the record line is malformed: %r' % nline[:40]
    if opname in ('init', 'add'):
        return None if nrest == b'' else '%d unexpected bytes follow the record line' % len(nrest)
    if len(old) != 1:
        return None
    ofn, odata = old[0]
    oline, _, orest = odata.partition(b'\n')
    if opname == 'update':
        if nrest != orest:
            return 'the auxiliary data changed: %d bytes before, %d after' % (len(orest), len(nrest))
        if nline == oline or nfn != ofn:
            return 'the record line was not replaced in place'
    if opname == 'setadmin':
        want = u + ('.admin' if step.get('admin') else '.user')
        if nfn != want or ndata != odata:
            return 'set-admin did not carry the whole record over to %s' % want
    return None


def c15_readonly(env, thorough):
    all_steps = [
        {'op': 'auth', 'user': 'b', 'pw': 'bpw'}, {'op': 'auth', 'user': 'b', 'pw': 'wrong'}, {'op': 'auth', 'user': 'nobody', 'pw': 'x'},
        {'op': 'auth', 'user': 'weird', 'pw': 'x'}, {'op': 'auth', 'user': 'c', 'pw': 'cpw'},
        {'op': 'exists', 'user': 'b'}, {'op': 'exists', 'user': 'nobody'}, {'op': 'list'}, {'op': 'listfull'}, {'op': 'check'},
        # semantic failures must change nothing either
        {'op': 'add', 'user': 'b', 'pw': 'x'}, {'op': 'add', 'user': '-bad', 'pw': 'x'}, {'op': 'update', 'user': 'nobody', 'pw': 'x'},
        {'op': 'update', 'user': 'weird', 'pw': 'x'}, {'op': 'setadmin', 'user': 'nobody', 'admin': True}, {'op': 'setadmin', 'user': 'b', 'admin': False},
        {'op': 'init', 'user': 'r2', 'pw': 'x'},
    ]
    ro = 10
    # tree variants: the work area present (as after any completed change), absent (a store that was
    # only ever initialised or was synchronised from elsewhere) and left behind non-empty; in the
    # last two only the read-only calls are run (whether a failing change may create the empty work
    # area is not something the property decides)
    for variant in ('tmp-present', 'tmp-absent', 'tmp-with-leftover'):
        tmpl = os.path.join(env.work, 'c15r-' + variant, 'store')
        build_tree(env, tmpl, STD_SETUP, {'weird.user': b'argon2id:1:99:AAAA:AAAA\n'})
        steps = all_steps
        if variant == 'tmp-absent':
            shutil.rmtree(os.path.join(tmpl, '.tmp'), ignore_errors=True)
            steps = all_steps[:ro]
        elif variant == 'tmp-with-leftover':
            os.makedirs(os.path.join(tmpl, '.tmp'), exist_ok=True)
            with open(os.path.join(tmpl, '.tmp', 'b.user.123456'), 'wb') as f:
                f.write(b'argon2id:1:1:AAAA:AAAA\n')
            steps = all_steps[:ro]
        pre = read_tree(tmpl)
        fs = FS(tmpl)
        muts = []

        def on_access(op, phase, c, mut, desc, paths):
            if phase != 'in':
                return
            flags = c.args[2] if c.name == 'openat' and len(c.args) > 2 else ''
            if mut or ('O_CREAT' in flags or 'O_WRONLY' in flags or 'O_RDWR' in flags or 'O_TRUNC' in flags) and any(p and p.startswith(tmpl) for p in paths):
                muts.append((op, c.name, desc or c.raw[:120]))
        run = engine.run_driver(env.drv, env.work, {'base': tmpl, 'snap': True, 'steps': steps}, tag='c15r-' + variant)
        points, stats, acked = engine.replay(tmpl, fs, run, want_power=False, on_access=on_access)
        env.cov['traces_validated_against_impl'] += stats['validated']
        env.cov['evaluations'] += len(steps)
        vtag = '' if variant == 'tmp-present' else ':' + variant
        for op, name, desc in muts:
            st = steps[op]
            kind = 'read-only-call-mutates' if op < ro else 'failed-op-mutates'
            # a semantically failing add/update/set-admin may not even attempt a mutation ... except the no-op set-admin
            env.violation('%s:%s:%s%s' % (kind, st['op'], name, vtag), '[%s] step %s issued a mutating system call: %s' % (variant, st, desc.replace(tmpl + '/', '')), {'step': st, 'call': desc, 'variant': variant})
        for r in run.report:
            st = steps[r['i']]
            after = engine.snap_to_tree(r.get('snap') or {})
            if after != pre:
                diff = sorted(set(after) ^ set(pre)) + [k for k in after if k in pre and after[k] != pre[k]]
                env.violation('store-changed:%s%s' % (st['op'], vtag), '[%s] step %s (result ok=%s) changed the store: %s' % (variant, st, r['ok'], diff), {'step': st, 'variant': variant})
            if r['i'] >= ro and r['ok'] and not (st['op'] == 'setadmin' and st['user'] == 'b'):
                env.violation('semantic-failure-succeeds:%s' % st['op'], 'step %s should fail but succeeded' % st, {'step': st})
            env.distinct.add((variant, st['op'], st.get('user'), r['ok'], r.get('res')))
    env.samples.append({'readonly_steps': [s['op'] for s in all_steps[:ro]], 'failing_steps': [s['op'] + ':' + s['user'] for s in all_steps[ro:]], 'tree_variants': ['tmp-present', 'tmp-absent', 'tmp-with-leftover']})
    return env.evidence(
        'traced driver runs on three tree variants (work area present / absent / with a leftover file): authenticate (right/wrong/missing user/unsupported record/other parameter set), exists, list, list-full, check, and (first variant) semantically failing add/update/set-admin/init; every system call inside each step is replayed in the FS model: no mutation and no open for writing/creation under the store, snapshot identical after every step',
        ['library level; the frontends only call authenticate (C04)'])


# =============================================================================================
# C03
# =============================================================================================

import re as _re
NAME_RE = _re.compile(rb'^[A-Za-z0-9][-_.@A-Za-z0-9]*$')


def c03_names(root):
    sib = os.path.join(root, 'sib')
    names = [
        b'', b'.', b'..', b'../sib/bob', b'../sib/bob\x00', sib.encode() + b'/bob', b'a/../bob', b'./bob', b'bob/', b'bob/.', b'bob/..', b'.tmp/x', b'../decoy',
        b'-x', b'.x', b'.y', b'_x', b'@x', b'x y', b'x\n', b'x\ny', b'x\x00y', b'bob\x00', b'bob.user', b'bob.admin', b'bob.user/../bob', b'root', b'../base/root',
        b'x' * 255, b'x' * 256, b'y' * 5000, b'\xff\xfe', b'b\xc3\xb6b', b'bob ', b' bob', b'*', b'bob?', b'sib/bob', b'/etc/passwd', b'//bob', b'bob//', b'....//bob',
        # valid controls
        b'bob', b'a.b-c_d@e', b'new1', b'0', b'x' * 200,
    ]
    return names


def c03(env, thorough):
    root = os.path.join(env.work, 'c03', 'tree')
    tmpl = os.path.join(env.work, 'c03', 'tmpl')
    shutil.rmtree(tmpl, ignore_errors=True)
    base_t, sib_t = os.path.join(tmpl, 'base'), os.path.join(tmpl, 'sib')
    build_tree(env, base_t, [{'op': 'add', 'user': 'root', 'pw': 'rootpw', 'admin': True}, {'op': 'add', 'user': 'bob', 'pw': 'bobpw'}], {})
    rec = open(os.path.join(base_t, 'root.admin'), 'rb').read()
    for n in ('-x.admin', '.y.user', 'x y.user'):
        with open(os.path.join(base_t, n), 'wb') as f:
            f.write(rec)
    build_tree(env, sib_t, [{'op': 'add', 'user': 'sibroot', 'pw': 'sibrootpw', 'admin': True}, {'op': 'add', 'user': 'bob', 'pw': 'sibpw'}, {'op': 'add', 'user': 'decoy', 'pw': 'sibpw'}], {})
    os.makedirs(os.path.join(tmpl, 'empty'))
    os.makedirs(os.path.join(tmpl, 'onlybad'))
    with open(os.path.join(tmpl, 'onlybad', '-x.admin'), 'wb') as f:
        f.write(rec)
    with open(os.path.join(tmpl, 'decoy.txt'), 'wb') as f:
        f.write(b'decoy\n')
    with open(os.path.join(tmpl, 'decoy.user'), 'wb') as f:
        f.write(rec)
    base, sib, empty = os.path.join(root, 'base'), os.path.join(root, 'sib'), os.path.join(root, 'empty')
    names = c03_names(root)
    # tree variants for valid names: the work area <base>/.tmp replaced by a regular file, so that
    # no temporary file can be created where it belongs (must fail inside the base, not go elsewhere)
    cases = [(n, None) for n in names] + [(b'bob', 'tmp-is-file'), (b'new1', 'tmp-is-file')]
    for ni, (name, variant) in enumerate(cases):
        valid = bool(NAME_RE.match(name))
        ub = base64.b64encode(name).decode()
        steps = []
        for pw in ('bobpw', 'sibpw', 'rootpw'):
            steps.append({'op': 'auth', 'user_b64': ub, 'pw': pw})
        steps += [{'op': 'exists', 'user_b64': ub},
                  {'op': 'update', 'user_b64': ub, 'pw': 'hacked'},
                  {'op': 'setadmin', 'user_b64': ub, 'admin': True},
                  {'op': 'setadmin', 'user_b64': ub, 'admin': False},
                  {'op': 'add', 'user_b64': ub, 'pw': 'addpw'},
                  {'op': 'add', 'user_b64': ub, 'pw': 'addpw', 'admin': True},
                  {'op': 'remove', 'user_b64': ub},
                  {'op': 'init', 'user_b64': ub, 'pw': 'initpw', 'base': empty},
                  {'op': 'list'}, {'op': 'listfull'},
                  {'op': 'check', 'base': os.path.join(root, 'onlybad')}]
        copy_tree(tmpl, root)
        if variant == 'tmp-is-file':
            shutil.rmtree(os.path.join(base, '.tmp'), ignore_errors=True)
            with open(os.path.join(base, '.tmp'), 'wb') as f:
                f.write(b'not a directory\n')
        tree_before = read_tree(root)
        fs = FS(root)
        accesses = []

        def on_access(op, phase, c, mut, desc, paths, accesses=accesses):
            if phase == 'in':
                accesses.append((op, c, mut, desc, paths))
        run = engine.run_driver(env.drv, env.work, {'base': base, 'root': root, 'snap': True, 'steps': steps}, tag='c03')
        if run.report is None:
            raise TraceError('C03 driver run failed for name %r: %s' % (name, run.stderr[-500:]))
        points, stats, acked = engine.replay(root, fs, run, want_power=False, on_access=on_access)
        env.cov['traces_validated_against_impl'] += stats['validated']
        env.cov['transitions'] += stats['calls']
        shown = repr(name if len(name) < 40 else name[:20] + b'...(%d bytes)' % len(name))

        def viol(kind, step, msg, extra=None):
            env.violation('%s:%s%s' % (kind, step['op'], (':' + variant) if variant else ''), '[user name %s, %s%s] %s' % (shown, step['op'], (', tree variant ' + variant) if variant else '', msg),
                          {'name_b64': ub, 'step': step, 'detail': extra, 'variant': variant})
        # (1) path oracle
        for op, c, mut, desc, paths in accesses:
            st = steps[op]
            b = st.get('base', base)
            for p in paths:
                if p is None:
                    continue
                if not (p == root or p.startswith(root + '/')):
                    oflags = c.args[2] if c.name == 'openat' and len(c.args) > 2 else ''
                    creating = c.name == 'openat' and c.ret is not None and c.ret >= 0 and any(f in oflags for f in ('O_CREAT', 'O_WRONLY', 'O_RDWR', 'O_TRUNC')) \
                        and not p.startswith(('/dev/', '/proc/', '/sys/'))
                    if mut or creating or c.name in ('renameat', 'renameat2', 'unlinkat', 'mkdirat', 'linkat', 'symlinkat') and c.ret == 0:
                        viol('mutation-outside-sandbox', st, '%s touched %s' % (c.name, p))
                    continue
                rel = os.path.relpath(p, b)
                ok = (p == b) or rel == '.tmp' or (rel.startswith('.tmp/') and '/' not in rel[5:])
                if not ok and '/' not in rel and not rel.startswith('..'):
                    for ext in ('.user', '.admin'):
                        if rel.endswith(ext) and NAME_RE.match(rel[:-len(ext)].encode('latin1')):
                            ok = True
                if not ok and c.err == 'ENAMETOOLONG' and '/' not in rel and NAME_RE.match(rel.encode('latin1')):
                    ok = True  # strace prints over-long paths truncated (no extension visible); the call failed in the kernel
                if st['op'] in ('list', 'listfull', 'check') and os.path.dirname(p) == b:
                    ok = True  # directory scans look at every entry of the base directory
                if not ok:
                    viol('path-outside-contract', st, 'system call %s on %s (%s): not <base>, <base>/.tmp/* or <base>/<valid name>.user|.admin' % (c.name, os.path.relpath(p, root), 'mutating' if mut else 'read'),
                         c.raw[:200])
        # (2)+(3) effects
        prev = read_tree(root)
        copy_prev = None
        tree0 = engine.snap_to_tree  # noqa
        before = None
        for r in run.report:
            st = steps[r['i']]
            after = engine.snap_to_tree(r.get('snap') or {})
            if before is None:
                before = tree_before
            b_rel = os.path.relpath(st.get('base', base), root)
            outside_changed = [k for k in set(before) | set(after) if not (k == b_rel or k.startswith(b_rel + '/')) and before.get(k) != after.get(k)]
            if outside_changed:
                viol('effect-outside-base', st, 'objects outside the base directory changed: %s' % sorted(outside_changed)[:5])
            inside_changed = [k for k in set(before) | set(after) if (k == b_rel or k.startswith(b_rel + '/')) and before.get(k) != after.get(k) and k != b_rel + '/.tmp']
            if not valid:
                if st['op'] == 'auth' and r.get('res', '').startswith('true'):
                    viol('invalid-name-authenticates', st, 'Authenticate succeeded (%s) for a name outside the grammar' % r['res'])
                if st['op'] == 'exists' and r.get('res', '').startswith('true'):
                    viol('invalid-name-exists', st, 'Exists reports a user for a name outside the grammar')
                if inside_changed:
                    viol('invalid-name-effect', st, 'operation with an invalid name changed the store: %s (reported ok=%s)' % (sorted(inside_changed)[:4], r['ok']))
            if st['op'] in ('list', 'listfull') and st['op'] == 'list':
                shown_names = _re.findall(r'[^\[\] ]+', r.get('res', ''))
                bad = [n for n in shown_names if not NAME_RE.match(n.encode('latin1', 'replace'))]
                if bad:
                    viol('list-shows-invalid-name', st, 'List returned %s' % bad)
            if st['op'] == 'check' and r['ok']:
                viol('invalid-named-admin-counts', st, 'Check accepts a store whose only admin file has the invalid name -x')
            env.cov['evaluations'] += 1
            env.distinct.add((ni, st['op'], st.get('pw'), r['ok'], r.get('res')))
            before = after
        if ni % 9 == 0:
            env.samples.append({'name': shown, 'valid': valid, 'results': ['%s:%s%s' % (steps[r['i']]['op'], 'ok' if r['ok'] else 'err', ('=' + r['res']) if r.get('res') else '') for r in run.report][:8]})
    env.cov['states'] = len(cases)
    return env.evidence(
        '%d user names (+2 runs of valid names on a tree whose work area .tmp is a regular file) (empty, dot segments, traversal into a sibling store, absolute paths, aliases after path cleaning, leading - . _ @, control bytes, NUL, NAME_MAX, 5000 bytes, non-UTF-8, valid controls) x operations authenticate (3 passwords), exists, update, set-admin(t/f), add(user/admin), remove, init, list, list-full, check; one traced driver run per name on a tree with a sibling store and decoys; '
        'oracles: every path-taking system call stays inside the contract, nothing outside the base directory changes, invalid names have no effect and never authenticate, List shows no invalid name, an invalid-named admin does not satisfy Check' % len(names),
        ['paths are normalised lexically (the tree contains no symlinks)', 'library level; the frontends are covered by the in-process part'])
