"""File-system persistence model replaying a parsed system-call trace (DESIGN.md 2.4).

Volatile state  : names (path -> inode id), inode data
Durable state   : dnames, inode.durable; pending directory operations and pending writes
                  become durable by fsync of the directory / the file.
A mutating system call the model does not understand is a hard error (ModelError).
"""
import os, re, copy, hashlib
from strace import unq


class ModelError(Exception):
    pass


class Inode:
    __slots__ = ('id', 'kind', 'data', 'durable', 'pend', 'target', 'poisoned')

    def __init__(self, id, kind, data=b''):
        self.id, self.kind = id, kind
        self.data = bytearray(data)
        self.durable = bytes(data)   # content as of the last fsync (b'' if never)
        self.pend = []               # list of ('w', off, bytes) | ('t', size) since the last fsync
        self.target = None
        self.poisoned = False        # an fsync of this file has failed: later fsyncs prove nothing


class DirOp:
    __slots__ = ('kind', 'path', 'old', 'ino', 'dirs', 'seq')

    def __init__(self, kind, path, ino=None, old=None, seq=0):
        self.kind, self.path, self.ino, self.old, self.seq = kind, path, ino, old, seq
        self.dirs = {os.path.dirname(path)}
        if old:
            self.dirs.add(os.path.dirname(old))

    def __repr__(self):
        if self.kind == 'rename':
            return 'rename(%s -> %s)' % (self.old, self.path)
        return '%s(%s)' % (self.kind, self.path)


class Point:
    """state of the model after one system call of interest"""
    __slots__ = ('idx', 'call', 'op', 'phase', 'desc', 'mut')


class FS:
    def __init__(self, root):
        self.root = root
        self.inodes = {}
        self.names = {}
        self.dnames = {}
        self.pending = []
        self.next_ino = 1
        self.fds = {}
        self.seq = 0
        self.load(root)

    # ---- initial state -------------------------------------------------------------
    def new_inode(self, kind, data=b''):
        i = Inode(self.next_ino, kind, data)
        self.next_ino += 1
        self.inodes[i.id] = i
        return i

    def load(self, root):
        d = self.new_inode('d')
        self.names[root] = d.id
        for dp, dns, fns in os.walk(root):
            for n in dns:
                p = os.path.join(dp, n)
                if os.path.islink(p):
                    i = self.new_inode('l')
                    i.target = os.readlink(p)
                else:
                    i = self.new_inode('d')
                self.names[p] = i.id
            for n in fns:
                p = os.path.join(dp, n)
                if os.path.islink(p):
                    i = self.new_inode('l')
                    i.target = os.readlink(p)
                else:
                    try:
                        with open(p, 'rb') as f:
                            i = self.new_inode('f', f.read())
                    except OSError:
                        i = self.new_inode('o')
                self.names[p] = i.id
        self.dnames = dict(self.names)

    def inside(self, path):
        return path == self.root or path.startswith(self.root + '/')

    # ---- helpers -------------------------------------------------------------------
    def resolve(self, dirfd, path):
        p = path.decode('latin1')
        if not p.startswith('/'):
            if dirfd == 'AT_FDCWD':
                base = self.cwd if hasattr(self, 'cwd') else os.getcwd()
            else:
                fd = self.fds.get(int(dirfd))
                if fd is None or fd.get('path') is None:
                    return None
                base = fd['path']
            p = os.path.join(base, p)
        return os.path.normpath(p)

    def dirop(self, op):
        self.seq += 1
        op.seq = self.seq
        self.pending.append(op)

    # ---- applying system calls -------------------------------------------------------
    def apply(self, c):
        """apply one successful/unsuccessful call; returns (mutating?, description, paths touched)"""
        n = c.name
        h = getattr(self, 'sys_' + n, None)
        if h is None:
            return False, None, []
        return h(c)

    def _open(self, dirfd, patharg, flags, c):
        path = self.resolve(dirfd, unq(patharg))
        paths = [path] if path else []
        if c.ret is None or c.ret < 0:
            return False, None, paths
        fd = {'path': path, 'off': 0, 'flags': flags, 'ino': None}
        self.fds[c.ret] = fd
        mut = False
        desc = None
        if path and self.inside(path):
            ino = self.names.get(path)
            if ino is None:
                if 'O_CREAT' not in flags:
                    # opened something the model does not know (should not happen)
                    raise ModelError('open of unknown path %s without O_CREAT' % path)
                i = self.new_inode('f')
                self.names[path] = i.id
                self.dirop(DirOp('link', path, i.id))
                ino = i.id
                mut = True
                desc = 'create %s' % path
            fd['ino'] = ino
            node = self.inodes[ino]
            if 'O_TRUNC' in flags and node.kind == 'f' and ('O_WRONLY' in flags or 'O_RDWR' in flags):
                if len(node.data):
                    node.data = bytearray()
                    node.pend.append(('t', 0))
                    mut = True
                    desc = 'truncate-on-open %s' % path
            if 'O_APPEND' in flags:
                fd['append'] = True
        return mut, desc, paths

    def sys_openat(self, c):
        return self._open(c.args[0], c.args[1], c.args[2], c)

    def sys_open(self, c):
        return self._open('AT_FDCWD', c.args[0], c.args[1], c)

    def sys_creat(self, c):
        return self._open('AT_FDCWD', c.args[0], 'O_CREAT|O_WRONLY|O_TRUNC', c)

    def sys_close(self, c):
        try:
            self.fds.pop(int(c.args[0]), None)
        except ValueError:
            pass
        return False, None, []

    def sys_dup(self, c):
        if c.ret is not None and c.ret >= 0 and int(c.args[0]) in self.fds:
            self.fds[c.ret] = self.fds[int(c.args[0])]
        return False, None, []

    sys_dup2 = sys_dup
    sys_dup3 = sys_dup

    def _write(self, fdn, data, c, off=None):
        fd = self.fds.get(fdn)
        if fd is None or fd.get('ino') is None:
            return False, None, []
        if c.ret is None or c.ret < 0:
            return False, None, [fd['path']]
        data = data[:c.ret]
        node = self.inodes[fd['ino']]
        if off is None:
            o = len(node.data) if fd.get('append') else fd['off']
            fd['off'] = o + len(data)
        else:
            o = off
        if len(data) == 0:
            return False, None, [fd['path']]
        if len(node.data) < o:
            node.data.extend(b'\0' * (o - len(node.data)))
        node.data[o:o + len(data)] = data
        if 'O_SYNC' in fd['flags'] or 'O_DSYNC' in fd['flags']:
            node.durable = bytes(node.data)
            node.pend = []
        else:
            node.pend.append(('w', o, bytes(data)))
        return True, 'write %d bytes at %d to %s' % (len(data), o, fd['path']), [fd['path']]

    def sys_write(self, c):
        d = unq(c.args[1])
        if d is None:
            raise ModelError('cannot decode write buffer: ' + c.raw[:200])
        return self._write(int(c.args[0]), d, c)

    def sys_pwrite64(self, c):
        return self._write(int(c.args[0]), unq(c.args[1]), c, off=int(c.args[3]))

    def sys_writev(self, c):
        fd = self.fds.get(int(c.args[0]))
        if fd is None or fd.get('ino') is None:
            return False, None, []
        bufs = re.findall(r'iov_base="((?:\\x[0-9a-f]{2})*)"', c.args[1])
        data = b''.join(bytes.fromhex(b.replace('\\x', '')) for b in bufs)
        return self._write(int(c.args[0]), data, c)

    def sys_read(self, c):
        fd = self.fds.get(int(c.args[0]))
        if fd is not None and c.ret is not None and c.ret > 0:
            fd['off'] += c.ret
        return False, None, [fd['path']] if fd and fd.get('path') else []

    def sys_pread64(self, c):
        fd = self.fds.get(int(c.args[0]))
        return False, None, [fd['path']] if fd and fd.get('path') else []

    def sys_lseek(self, c):
        fd = self.fds.get(int(c.args[0]))
        if fd is not None and c.ret is not None and c.ret >= 0:
            fd['off'] = c.ret
        return False, None, []

    def sys_copy_file_range(self, c):
        src = self.fds.get(int(c.args[0]))
        dst = self.fds.get(int(c.args[2]))
        paths = [f['path'] for f in (src, dst) if f and f.get('path')]
        if c.ret is None or c.ret <= 0:
            return False, None, paths
        if dst is None or dst.get('ino') is None:
            return False, None, paths
        if src is None or src.get('ino') is None:
            raise ModelError('copy_file_range from a file outside the model into the store: ' + c.raw[:200])
        if c.args[1] != 'NULL' or c.args[3] != 'NULL':
            raise ModelError('copy_file_range with explicit offsets is not modelled')
        sn = self.inodes[src['ino']]
        data = bytes(sn.data[src['off']:src['off'] + c.ret])
        if len(data) != c.ret:
            raise ModelError('copy_file_range copied %d bytes but the model has %d' % (c.ret, len(data)))
        src['off'] += c.ret
        fake = type('X', (), {})()
        fake.ret = c.ret
        return self._write(int(c.args[2]), data, fake)

    def sys_sendfile(self, c):
        dst = self.fds.get(int(c.args[0]))
        src = self.fds.get(int(c.args[1]))
        if dst is None or dst.get('ino') is None or c.ret is None or c.ret <= 0:
            return False, None, []
        if src is None or src.get('ino') is None or c.args[2] != 'NULL':
            raise ModelError('sendfile form not modelled: ' + c.raw[:200])
        sn = self.inodes[src['ino']]
        data = bytes(sn.data[src['off']:src['off'] + c.ret])
        src['off'] += c.ret
        fake = type('X', (), {})()
        fake.ret = c.ret
        return self._write(int(c.args[0]), data, fake)

    def sys_ftruncate(self, c):
        fd = self.fds.get(int(c.args[0]))
        if fd is None or fd.get('ino') is None or c.ret != 0:
            return False, None, []
        node = self.inodes[fd['ino']]
        size = int(c.args[1])
        if size < len(node.data):
            del node.data[size:]
        else:
            node.data.extend(b'\0' * (size - len(node.data)))
        node.pend.append(('t', size))
        return True, 'ftruncate %s to %d' % (fd['path'], size), [fd['path']]

    def sys_truncate(self, c):
        path = self.resolve('AT_FDCWD', unq(c.args[0]))
        if c.ret != 0 or not self.inside(path):
            return False, None, [path]
        node = self.inodes[self.names[path]]
        size = int(c.args[1])
        del node.data[size:]
        node.pend.append(('t', size))
        return True, 'truncate %s' % path, [path]

    def _fsync(self, c):
        fd = self.fds.get(int(c.args[0]))
        if fd is None:
            return False, None, []
        paths = [fd['path']] if fd.get('path') else []
        if fd.get('ino') is None:
            return False, None, paths
        if c.ret != 0:
            # a failed fsync: the kernel reports the write-back error once and marks the pages clean, so a
            # later fsync of the same file succeeds WITHOUT the data being on disk - what was written so
            # far can never be relied on any more
            if self.inodes[fd['ino']].kind != 'd':
                self.inodes[fd['ino']].poisoned = True
            return False, None, paths
        node = self.inodes[fd['ino']]
        if node.kind == 'd':
            d = fd['path']
            # the directory may have been reached under another name: use the current name of the inode
            for p, i in self.names.items():
                if i == node.id:
                    d = p
            keep = []
            for op in self.pending:
                if d in op.dirs:
                    self.persist(op)
                else:
                    keep.append(op)
            self.pending = keep
            return True, 'fsync dir %s' % d, paths
        if getattr(node, 'poisoned', False):
            return True, 'fsync file %s (after an earlier failed fsync: proves nothing)' % fd['path'], paths
        node.durable = bytes(node.data)
        node.pend = []
        return True, 'fsync file %s' % fd['path'], paths

    sys_fsync = _fsync
    sys_fdatasync = _fsync

    def _syncall(self, c):
        for op in self.pending:
            self.persist(op)
        self.pending = []
        for n in self.inodes.values():
            n.durable = bytes(n.data)
            n.pend = []
        return True, 'sync', []

    sys_sync = _syncall
    sys_syncfs = _syncall

    def persist(self, op, names=None):
        dn = self.dnames if names is None else names
        if op.kind in ('link', 'mkdir', 'symlink'):
            dn[op.path] = op.ino
        elif op.kind in ('unlink', 'rmdir'):
            dn.pop(op.path, None)
        elif op.kind == 'rename':
            dn.pop(op.old, None)
            dn[op.path] = op.ino
            if self.inodes[op.ino].kind == 'd':
                # moved directory: children follow (volatile mapping is authoritative here)
                pass

    def _rename(self, olddirfd, oldp, newdirfd, newp, c):
        old = self.resolve(olddirfd, unq(oldp))
        new = self.resolve(newdirfd, unq(newp))
        paths = [old, new]
        if c.ret != 0:
            return False, None, paths
        if not (self.inside(old) or self.inside(new)):
            return False, None, paths
        ino = self.names.get(old)
        if ino is None:
            raise ModelError('rename of a path unknown to the model: %s' % old)
        del self.names[old]
        self.names[new] = ino
        if self.inodes[ino].kind == 'd':
            for p in list(self.names):
                if p.startswith(old + '/'):
                    self.names[new + p[len(old):]] = self.names.pop(p)
        self.dirop(DirOp('rename', new, ino, old=old))
        return True, 'rename %s -> %s' % (old, new), paths

    def sys_rename(self, c):
        return self._rename('AT_FDCWD', c.args[0], 'AT_FDCWD', c.args[1], c)

    def sys_renameat(self, c):
        return self._rename(c.args[0], c.args[1], c.args[2], c.args[3], c)

    def sys_renameat2(self, c):
        if len(c.args) > 4 and c.args[4] not in ('0', 'RENAME_NOREPLACE'):
            raise ModelError('renameat2 flags not modelled: ' + c.args[4])
        return self._rename(c.args[0], c.args[1], c.args[2], c.args[3], c)

    def _unlink(self, dirfd, patharg, c, rmdir=False):
        path = self.resolve(dirfd, unq(patharg))
        if c.ret != 0 or path is None or not self.inside(path):
            return False, None, [path]
        ino = self.names.pop(path, None)
        if ino is None:
            raise ModelError('unlink of a path unknown to the model: %s' % path)
        self.dirop(DirOp('rmdir' if rmdir else 'unlink', path, ino))
        return True, ('rmdir %s' if rmdir else 'unlink %s') % path, [path]

    def sys_unlink(self, c):
        return self._unlink('AT_FDCWD', c.args[0], c)

    def sys_unlinkat(self, c):
        return self._unlink(c.args[0], c.args[1], c, rmdir='AT_REMOVEDIR' in c.args[2])

    def sys_rmdir(self, c):
        return self._unlink('AT_FDCWD', c.args[0], c, rmdir=True)

    def _mkdir(self, dirfd, patharg, c):
        path = self.resolve(dirfd, unq(patharg))
        if c.ret != 0 or path is None or not self.inside(path):
            return False, None, [path]
        i = self.new_inode('d')
        self.names[path] = i.id
        self.dirop(DirOp('mkdir', path, i.id))
        return True, 'mkdir %s' % path, [path]

    def sys_mkdir(self, c):
        return self._mkdir('AT_FDCWD', c.args[0], c)

    def sys_mkdirat(self, c):
        return self._mkdir(c.args[0], c.args[1], c)

    def _link(self, odfd, oldp, ndfd, newp, c):
        old = self.resolve(odfd, unq(oldp))
        new = self.resolve(ndfd, unq(newp))
        if c.ret != 0 or not self.inside(new):
            return False, None, [old, new]
        ino = self.names.get(old)
        if ino is None:
            raise ModelError('link from a path outside the model')
        self.names[new] = ino
        self.dirop(DirOp('link', new, ino))
        return True, 'link %s -> %s' % (new, old), [old, new]

    def sys_link(self, c):
        return self._link('AT_FDCWD', c.args[0], 'AT_FDCWD', c.args[1], c)

    def sys_linkat(self, c):
        return self._link(c.args[0], c.args[1], c.args[2], c.args[3], c)

    def _symlink(self, target, dirfd, patharg, c):
        path = self.resolve(dirfd, unq(patharg))
        if c.ret != 0 or not self.inside(path):
            return False, None, [path]
        i = self.new_inode('l')
        i.target = unq(target).decode('latin1')
        self.names[path] = i.id
        self.dirop(DirOp('symlink', path, i.id))
        return True, 'symlink %s' % path, [path]

    def sys_symlink(self, c):
        return self._symlink(c.args[0], 'AT_FDCWD', c.args[1], c)

    def sys_symlinkat(self, c):
        return self._symlink(c.args[0], c.args[1], c.args[2], c)

    # path-taking calls without effect in the model (needed for the path oracle)
    def _pathonly(idx_dirfd, idx_path):
        def h(self, c):
            dirfd = c.args[idx_dirfd] if idx_dirfd is not None else 'AT_FDCWD'
            b = unq(c.args[idx_path]) if len(c.args) > idx_path else None
            if b is None:
                return False, None, []
            return False, None, [self.resolve(dirfd, b)]
        return h

    sys_newfstatat = _pathonly(0, 1)
    sys_statx = _pathonly(0, 1)
    sys_faccessat = _pathonly(0, 1)
    sys_faccessat2 = _pathonly(0, 1)
    sys_readlinkat = _pathonly(0, 1)
    sys_stat = _pathonly(None, 0)
    sys_lstat = _pathonly(None, 0)
    sys_access = _pathonly(None, 0)
    sys_readlink = _pathonly(None, 0)
    sys_execve = _pathonly(None, 0)

    def _meta_mut(idx_dirfd, idx_path, what):
        def h(self, c):
            dirfd = c.args[idx_dirfd] if idx_dirfd is not None else 'AT_FDCWD'
            p = self.resolve(dirfd, unq(c.args[idx_path]))
            if c.ret == 0 and p and self.inside(p):
                return True, '%s %s' % (what, p), [p]
            return False, None, [p]
        return h

    sys_chmod = _meta_mut(None, 0, 'chmod')
    sys_fchmodat = _meta_mut(0, 1, 'chmod')
    sys_chown = _meta_mut(None, 0, 'chown')
    sys_fchownat = _meta_mut(0, 1, 'chown')
    sys_utimensat = _meta_mut(0, 1, 'utimens')
    sys_mknodat = _meta_mut(0, 1, 'mknod')
    sys_setxattr = _meta_mut(None, 0, 'setxattr')

    def _fd_mut(what):
        def h(self, c):
            fd = self.fds.get(int(c.args[0])) if c.args and c.args[0].lstrip('-').isdigit() else None
            if fd and fd.get('ino') is not None and c.ret == 0:
                if what in ('fallocate',):
                    raise ModelError('%s on a store file is not modelled' % what)
                return True, '%s %s' % (what, fd['path']), [fd['path']]
            return False, None, []
        return h

    sys_fchmod = _fd_mut('fchmod')
    sys_fchown = _fd_mut('fchown')
    sys_fallocate = _fd_mut('fallocate')
    sys_fsetxattr = _fd_mut('fsetxattr')

    def sys_mmap(self, c):
        # file-backed shared writable mappings of store files would bypass the model
        if len(c.args) >= 5 and c.args[4].lstrip('-').isdigit() and int(c.args[4]) >= 0:
            fd = self.fds.get(int(c.args[4]))
            if fd and fd.get('ino') is not None and 'MAP_SHARED' in c.args[3] and 'PROT_WRITE' in c.args[2]:
                raise ModelError('shared writable mmap of a store file is not modelled')
        return False, None, []

    # ---- views -----------------------------------------------------------------------
    def tree(self, names=None, content=None):
        """materialisable view: relpath -> bytes (files) / None (dirs) / ('l', target)"""
        names = self.names if names is None else names
        out = {}
        for p, ino in names.items():
            if p == self.root:
                continue
            # skip entries whose parent chain is missing (e.g. file persisted, its dir not)
            rel = os.path.relpath(p, self.root)
            n = self.inodes[ino]
            if n.kind == 'd':
                out[rel] = None
            elif n.kind == 'l':
                out[rel] = ('l', n.target)
            else:
                out[rel] = bytes(content[ino]) if content and ino in content else bytes(n.data)
        return out


def tree_key(tree):
    h = hashlib.sha256()
    for k in sorted(tree):
        v = tree[k]
        h.update(k.encode() + b'\0')
        if v is None:
            h.update(b'D')
        elif isinstance(v, tuple):
            h.update(b'L' + v[1].encode())
        else:
            h.update(b'F' + hashlib.sha256(v).digest())
    return h.hexdigest()
