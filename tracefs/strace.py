"""Parser for `strace -f -xx -s <big>` output (one file, all threads)."""
import re, os, subprocess

_line = re.compile(r'^(\d+)\s+(.*)$')
_call = re.compile(r'^([a-z_0-9]+)\((.*)$', re.S)
_resumed = re.compile(r'^<\.\.\. ([a-z_0-9]+) resumed>(.*)$', re.S)


class Call:
    __slots__ = ('tid', 'name', 'args', 'ret', 'err', 'raw', 'lineno', 'endline', 'injected')

    def __repr__(self):
        return '%s(%s) = %s %s' % (self.name, ', '.join(a[:60] for a in self.args), self.ret, self.err or '')


def split_args(s):
    """split top-level comma separated arguments; respects quotes, () [] {}"""
    out, cur, depth, i, n = [], [], 0, 0, len(s)
    inq = False
    while i < n:
        c = s[i]
        if inq:
            cur.append(c)
            if c == '\\' and i + 1 < n:
                cur.append(s[i + 1])
                i += 1
            elif c == '"':
                inq = False
        elif c == '"':
            inq = True
            cur.append(c)
        elif c in '([{':
            depth += 1
            cur.append(c)
        elif c in ')]}':
            depth -= 1
            cur.append(c)
        elif c == ',' and depth == 0:
            out.append(''.join(cur).strip())
            cur = []
        else:
            cur.append(c)
        i += 1
    if cur:
        out.append(''.join(cur).strip())
    return out


def unq(arg):
    """decode a -xx quoted string argument to bytes (None if not a string)"""
    arg = arg.strip()
    if not arg.startswith('"'):
        return None
    end = arg.rfind('"')
    body = arg[1:end]
    if '\\x' in body or body == '':
        try:
            return bytes.fromhex(body.replace('\\x', ''))
        except ValueError:
            pass
    return body.encode('latin1')


def parse_result(rest):
    """rest = text after the closing paren: ' = 3' / ' = -1 ENOENT (No such ...)' / ' = ?'"""
    m = re.search(r'=\s+(-?\d+|0x[0-9a-f]+|\?)\s*([A-Z][A-Z0-9]+)?(.*)$', rest)
    if not m:
        return None, None, False
    r = m.group(1)
    if r == '?':
        ret = None
    elif r.startswith('0x'):
        ret = int(r, 16)
    else:
        ret = int(r)
    return ret, m.group(2), '(INJECTED)' in rest


def parse(path):
    calls = []
    pending = {}
    with open(path, 'r', errors='replace') as f:
        for lineno, line in enumerate(f, 1):
            line = line.rstrip('\n')
            m = _line.match(line)
            if not m:
                continue
            tid, rest = int(m.group(1)), m.group(2)
            if rest.startswith('---') or rest.startswith('+++'):
                continue
            if rest.endswith('<unfinished ...>'):
                pending[tid] = (rest[:-len('<unfinished ...>')], lineno)
                continue
            mr = _resumed.match(rest)
            start_line = lineno
            if mr:
                if tid not in pending:
                    continue
                head, start_line = pending.pop(tid)
                rest = head + mr.group(2)
            mc = _call.match(rest)
            if not mc:
                continue
            name, tail = mc.group(1), mc.group(2)
            # find the closing paren of the call: last ') = '
            ms = list(re.finditer(r'\)\s+= ', tail))
            if not ms:
                continue
            k = ms[-1].start()
            argstr, res = tail[:k], tail[k + 1:]
            c = Call()
            c.tid, c.name, c.raw, c.lineno = tid, name, rest, start_line
            c.endline = lineno
            c.args = split_args(argstr)
            c.ret, c.err, c.injected = parse_result(res)
            calls.append(c)
    # calls are listed in the order of their completion (for one thread that is also the order of
    # their start; between threads the completion is the instant from which an effect - above all
    # that of an fsync - can be relied on)
    calls.sort(key=lambda c: c.endline)
    return calls


TRACE_SET = ('openat,open,creat,write,pwrite64,writev,pwritev,pwritev2,read,pread64,close,fsync,fdatasync,sync,syncfs,'
             'rename,renameat,renameat2,unlink,unlinkat,mkdir,mkdirat,rmdir,link,linkat,symlink,symlinkat,ftruncate,truncate,'
             'copy_file_range,sendfile,splice,lseek,dup,dup2,dup3,faccessat,faccessat2,access,newfstatat,stat,lstat,statx,fchmod,fchmodat,chmod,'
             'fchown,fchownat,chown,getdents64,readlink,readlinkat,mknod,mknodat,fallocate,utimensat,setxattr,fsetxattr,execve,chdir,fchdir,'
             'socket,connect,bind,sync_file_range,msync,mmap')


def run(cmd, out, inject=None, env=None, follow=True, timeout=600):
    """run cmd under strace; returns exit code of the command"""
    a = ['strace', '-xx', '-s', '4000000', '-o', out, '-e', 'trace=' + TRACE_SET]
    if follow:
        a.insert(1, '-f')
    if inject:
        a += ['-e', 'inject=' + inject]
    p = subprocess.run(a + cmd, env=env, stdout=subprocess.PIPE, stderr=subprocess.PIPE, timeout=timeout)
    return p.returncode, p.stdout, p.stderr
