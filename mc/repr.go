package verifmc

import (
	"crypto/sha256"
	"encoding/hex"
	"fmt"
	"reflect"
	"sort"
	"strings"
	"time"
)

// Repr renders a value deterministically (no addresses): channels by their canonical
// names, pointers are followed, errors by message, time.Time by Unix seconds.
func Repr(v any) string {
	var sb strings.Builder
	repr(&sb, reflect.ValueOf(v), 0)
	return sb.String()
}

var timeType = reflect.TypeOf(time.Time{})
var errType = reflect.TypeOf((*error)(nil)).Elem()

func repr(sb *strings.Builder, v reflect.Value, depth int) {
	if !v.IsValid() {
		sb.WriteString("nil")
		return
	}
	if depth > 6 {
		sb.WriteString("...")
		return
	}
	if v.Type() == timeType {
		sb.WriteString("time") // timestamps are abstracted away (no oracle of the mc checks reads them)
		return
	}
	if v.Kind() == reflect.Ptr {
		et := v.Type().Elem()
		if et.Kind() == reflect.Struct && strings.HasSuffix(et.PkgPath(), "verifmc") && strings.HasPrefix(et.Name(), "Chan[") {
			if v.IsNil() {
				sb.WriteString("nilchan")
			} else {
				sb.WriteString("<" + v.Elem().Field(0).FieldByName("name").String() + ">")
			}
			return
		}
	}
	if v.CanInterface() {
		if v.Type().Implements(errType) && !(v.Kind() == reflect.Ptr && v.IsNil()) && !(v.Kind() == reflect.Interface && v.IsNil()) {
			fmt.Fprintf(sb, "err(%s)", v.Interface().(error).Error())
			return
		}
	}
	switch v.Kind() {
	case reflect.Ptr, reflect.Interface:
		if v.IsNil() {
			sb.WriteString("nil")
			return
		}
		repr(sb, v.Elem(), depth+1)
	case reflect.Struct:
		sb.WriteString("{")
		for i := 0; i < v.NumField(); i++ {
			if i > 0 {
				sb.WriteString(",")
			}
			repr(sb, v.Field(i), depth+1)
		}
		sb.WriteString("}")
	case reflect.Slice, reflect.Array:
		if v.Kind() == reflect.Slice && v.Type().Elem().Kind() == reflect.Uint8 {
			fmt.Fprintf(sb, "%q", v.Bytes())
			return
		}
		sb.WriteString("[")
		for i := 0; i < v.Len(); i++ {
			if i > 0 {
				sb.WriteString(",")
			}
			repr(sb, v.Index(i), depth+1)
		}
		sb.WriteString("]")
	case reflect.Map:
		keys := v.MapKeys()
		strs := make([]string, len(keys))
		for i, k := range keys {
			var kb, vb strings.Builder
			repr(&kb, k, depth+1)
			repr(&vb, v.MapIndex(k), depth+1)
			strs[i] = kb.String() + ":" + vb.String()
		}
		sort.Strings(strs)
		sb.WriteString("map[" + strings.Join(strs, ",") + "]")
	case reflect.String:
		fmt.Fprintf(sb, "%q", v.String())
	case reflect.Bool:
		fmt.Fprintf(sb, "%v", v.Bool())
	case reflect.Int, reflect.Int8, reflect.Int16, reflect.Int32, reflect.Int64:
		fmt.Fprintf(sb, "%d", v.Int())
	case reflect.Uint, reflect.Uint8, reflect.Uint16, reflect.Uint32, reflect.Uint64, reflect.Uintptr:
		fmt.Fprintf(sb, "%d", v.Uint())
	case reflect.Float32, reflect.Float64:
		fmt.Fprintf(sb, "%g", v.Float())
	case reflect.Func:
		if v.IsNil() {
			sb.WriteString("nilfunc")
		} else {
			sb.WriteString("func")
		}
	case reflect.Chan:
		sb.WriteString("rawchan")
	default:
		fmt.Fprintf(sb, "?%s", v.Kind())
	}
}

// Key is the canonical global state of the execution at a scheduling point: all threads
// (pending operation incl. values, since-home history, harness-local digest), all
// channels, all environment sources and the harness key (store directory, agent fields).
func (s *Sched) Key() string {
	var parts []string
	for _, t := range s.threads {
		if t.done {
			parts = append(parts, "T "+t.Name+" done")
			continue
		}
		loc := ""
		if t.Local != nil {
			loc = t.Local()
		}
		pend := s.descPending(t)
		if t.lastDone != nil {
			d := t.lastDone
			pend += fmt.Sprintf(" done-case=%d", d.chosen)
			if d.chosen >= 0 && d.cases[d.chosen].dir == dirRecv {
				pend += "=" + Repr(d.cases[d.chosen].rval)
			}
		}
		parts = append(parts, fmt.Sprintf("T %s %s H[%s] L[%s]", t.Name, pend, strings.Join(t.hist, "|"), loc))
	}
	sort.Strings(parts)
	var cs []string
	for _, c := range s.chans {
		if len(c.buf) == 0 && !c.closed {
			continue
		}
		var vs []string
		for _, v := range c.buf {
			vs = append(vs, Repr(v))
		}
		cs = append(cs, fmt.Sprintf("C %s closed=%v [%s]", c.name, c.closed, strings.Join(vs, ";")))
	}
	sort.Strings(cs)
	parts = append(parts, cs...)
	for _, e := range s.envs {
		parts = append(parts, "E "+e.Key())
	}
	if s.cfg.HarnessKey != nil {
		parts = append(parts, "H "+s.cfg.HarnessKey())
	}
	h := sha256.Sum256([]byte(strings.Join(parts, "\n")))
	if s.cfg.Trace {
		s.lastKeyText = strings.Join(parts, "\n")
	}
	return hex.EncodeToString(h[:16])
}
