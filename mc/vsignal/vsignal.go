// Package vsignal is the modelled replacement of os/signal: harness threads deliver
// signals; delivery is non-blocking like the runtime's.
package vsignal

import (
	"os"

	mc "github.com/whawty/auth/internal/verifmc"
)

type reg struct {
	c    *mc.Chan[os.Signal]
	sigs []os.Signal
}

func Notify(c *mc.Chan[os.Signal], sig ...os.Signal) {
	s := mc.Cur()
	if s == nil {
		return
	}
	rs, _ := s.Values["vsignal"].([]reg)
	s.Values["vsignal"] = append(rs, reg{c, sig})
}

// Deliver is called by a harness thread; it is a visible operation of that thread.
func Deliver(site string, sig os.Signal) {
	s := mc.Cur()
	// a signal sent before the agent installed its handler would terminate the process;
	// the harness therefore only signals a running agent (enabled once a handler exists)
	mc.Ext(site, "signal "+sig.String(), func() bool {
		rs, _ := s.Values["vsignal"].([]reg)
		return len(rs) > 0
	}, func() {
		rs, _ := s.Values["vsignal"].([]reg)
		for _, r := range rs {
			for _, x := range r.sigs {
				if x == sig {
					r.c.TrySend(sig)
				}
			}
		}
	})
}

// Registered tells whether anybody listens (the dispatcher registers when it starts).
func Registered() int {
	s := mc.Cur()
	rs, _ := s.Values["vsignal"].([]reg)
	return len(rs)
}
