// Package vexec is the modelled replacement of os/exec for hooks.go: Start performs the
// real eligibility test of the file (exists, regular after following symlinks, execute
// permission) and records the attempt; the process behaviour (exits ok / fails / hangs
// until killed) is chosen by the harness; Wait is a modelled blocking operation.
package vexec

import (
	"errors"
	"fmt"
	"io"
	"os"
	"syscall"

	mc "github.com/whawty/auth/internal/verifmc"
	"github.com/whawty/auth/internal/verifmc/vtime"
)

type Behaviour int

const (
	ExitOK Behaviour = iota
	ExitFail
	Hang
	StartFail // the program cannot be started although it is an executable regular file (e.g. its interpreter is missing)
)

// StartRec is one recorded process start.
type StartRec struct {
	Signals []string // signals other than SIGKILL sent to the process
	Path    string
	Args    []string
	Env     []string
	Step    int
	VTime   vtime.Duration
	Thread  string
	Err     string
	Killed  bool
	KillAt  vtime.Duration
	Waited  bool
}

type World struct {
	Starts    []*StartRec
	Behaviour func(path string) Behaviour
}

func GetWorld() *World {
	s := mc.Cur()
	if s == nil {
		return nil
	}
	w, ok := s.Values["vexec"].(*World)
	if !ok {
		w = &World{}
		s.Values["vexec"] = w
	}
	return w
}

// WorldOf returns the exec world of a finished execution.
func WorldOf(s *mc.Sched) *World {
	w, _ := s.Values["vexec"].(*World)
	if w == nil {
		w = &World{}
	}
	return w
}

type Cmd struct {
	Path         string
	Args         []string
	Env          []string
	Dir          string
	Stdin        io.Reader
	Stdout       io.Writer
	Stderr       io.Writer
	Process      *Process
	ProcessState *ProcessState
	rec          *StartRec
	beh          Behaviour
}

type Process struct {
	Pid int
	cmd *Cmd
}

type ProcessState struct {
	ok bool
}

func (p *ProcessState) String() string {
	if p == nil {
		return "<nil>"
	}
	if p.ok {
		return "exit status 0"
	}
	return "exit status 1"
}

func Command(name string, arg ...string) *Cmd {
	return &Cmd{Path: name, Args: append([]string{name}, arg...)}
}

func (c *Cmd) Start() error {
	w := GetWorld()
	s := mc.Cur()
	rec := &StartRec{Path: c.Path, Args: c.Args, Env: c.Env, Step: s.Steps, VTime: vtime.Elapsed(), Thread: mc.Me().Name}
	w.Starts = append(w.Starts, rec)
	c.rec = rec
	st, err := os.Stat(c.Path)
	if err == nil && st.IsDir() {
		err = &os.PathError{Op: "fork/exec", Path: c.Path, Err: syscall.EACCES}
	}
	if err == nil && !st.Mode().IsRegular() {
		err = &os.PathError{Op: "fork/exec", Path: c.Path, Err: syscall.EACCES}
	}
	if err == nil {
		if e := syscall.Access(c.Path, 1); e != nil {
			err = &os.PathError{Op: "fork/exec", Path: c.Path, Err: e}
		}
	}
	if err != nil {
		rec.Err = err.Error()
		return err
	}
	c.beh = ExitOK
	if w.Behaviour != nil {
		c.beh = w.Behaviour(c.Path)
	}
	if c.beh == StartFail {
		err = &os.PathError{Op: "fork/exec", Path: c.Path, Err: syscall.ENOENT}
		rec.Err = err.Error()
		return err
	}
	c.Process = &Process{Pid: 1000 + len(w.Starts), cmd: c}
	// the program is running now; other threads get to run before the caller continues with
	// whatever it does after having started it
	mc.Yield("vexec.Start")
	return nil
}

func (c *Cmd) Wait() error {
	if c.Process == nil {
		return errors.New("exec: not started")
	}
	mc.Ext("vexec.Wait", "wait "+c.Path, func() bool { return c.beh != Hang || c.rec.Killed }, func() {})
	c.rec.Waited = true
	if c.rec.Killed {
		c.ProcessState = &ProcessState{}
		return errors.New("signal: killed")
	}
	c.ProcessState = &ProcessState{ok: c.beh == ExitOK}
	if c.beh == ExitFail {
		return errors.New("exit status 1")
	}
	return nil
}

func (c *Cmd) Run() error {
	if err := c.Start(); err != nil {
		return err
	}
	return c.Wait()
}

func (p *Process) Kill() error {
	if p.cmd.rec.Waited {
		return errors.New("os: process already finished")
	}
	if !p.cmd.rec.Killed {
		p.cmd.rec.Killed = true
		p.cmd.rec.KillAt = vtime.Elapsed()
	}
	return nil
}

// Signal: only SIGKILL ends the modelled process; a hanging hook is the adversarial one that
// ignores (or handles) every other signal.
func (p *Process) Signal(sig os.Signal) error {
	if p.cmd.rec.Waited {
		return errors.New("os: process already finished")
	}
	if sig == os.Kill || sig == syscall.SIGKILL {
		return p.Kill()
	}
	p.cmd.rec.Signals = append(p.cmd.rec.Signals, sig.String())
	return nil
}

func (r *StartRec) String() string {
	return fmt.Sprintf("%s %v at step %d +%v err=%q", r.Path, r.Args[1:], r.Step, r.VTime, r.Err)
}
