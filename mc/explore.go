package verifmc

import (
	"fmt"
	"os"
	"strings"
	"time"
)

// Viol is one oracle failure of one execution.
type Viol struct {
	Key  string
	Desc string
}

// Harness describes one closed system to explore.
type Harness struct {
	Name       string
	Root       func()                             // body of the root thread: builds the system, spawns clients
	Key        func() string                      // harness part of the global state key (may be nil)
	Final      func(s *Sched, out Outcome) []Viol // oracle at the end of every complete execution
	Invariant  func(s *Sched) []Viol              // optional oracle at every scheduling point
	Cleanup    func()                             // per-execution cleanup
	Observe    func(s *Sched, out Outcome) string // terminal observation (for outcome statistics / determinism check)
	DaemonSite func(site string) bool
	Priority   func(t *Thread) bool
}

type Options struct {
	Bound    int  // maximal deviation cost; <0: unbounded
	Prune    bool // state-key pruning (only sound with Bound<0)
	AllCost  bool // every non-default choice costs one deviation (otherwise only preemptions of an enabled thread do)
	Order    int
	MaxSteps int
	MaxExec  int
	Deadline time.Time
	Report   func(v Viol, choices []int, trace []string)
}

type Stats struct {
	Executions  int
	Transitions int
	States      int
	Cuts        int
	MaxDepth    int
	Complete    bool
	Outcomes    map[string]int
	Terminal    map[string]int // distinct terminal observations
	Violations  int
	Bound       int
	Restarted   bool // file-operation interleaving was switched on during the run
}

type frame struct {
	prefix []int
	cost   int
}

// stableLog: the execution log without the stack trace of a panic (goroutine numbers and
// addresses differ between two runs of the same schedule).
func stableLog(log []string) string {
	var out []string
	for _, l := range log {
		if strings.HasPrefix(l, "-- panic:") {
			l, _, _ = strings.Cut(l, "\n")
		}
		out = append(out, l)
	}
	return strings.Join(out, "\n")
}

// Explore enumerates executions of h: depth-first over choice prefixes, taking choice 0
// beyond the prefix, expanding every alternative within the deviation bound; with Prune a
// branch is cut when its global state key was already visited.
func Explore(h Harness, o Options) Stats {
	st := Stats{Outcomes: map[string]int{}, Terminal: map[string]int{}, Complete: true, Bound: o.Bound}
	if o.Prune && o.Bound >= 0 {
		panic("pruning is only sound without a deviation bound")
	}
	seen := map[string]struct{}{}
	stack := []frame{{}}
	multi0 := MultiAccessor
	var prevChoices []int
	// determinism obligation: the first schedule is executed twice with identical logs
	{
		a, oa, la := runOnce(h, o, nil, nil, true)
		if MultiAccessor != multi0 {
			return Explore(h, o)
		}
		b, ob, lb := runOnce(h, o, nil, nil, true)
		if oa != ob || la != lb || stableLog(a) != stableLog(b) {
			fmt.Fprintf(os.Stderr, "verifmc: harness %s is not deterministic:\nrun1 (%v) %s\n%s\nrun2 (%v) %s\n%s\n", h.Name, oa, la, strings.Join(a, "\n"), ob, lb, strings.Join(b, "\n"))
			os.Exit(2)
		}
	}
	for len(stack) > 0 {
		if o.MaxExec > 0 && st.Executions >= o.MaxExec || (!o.Deadline.IsZero() && time.Now().After(o.Deadline)) {
			st.Complete = false
			break
		}
		f := stack[len(stack)-1]
		stack = stack[:len(stack)-1]
		var viols []Viol
		cutAt := -1
		cfg := Config{Order: o.Order, MaxSteps: o.MaxSteps, HarnessKey: h.Key, DaemonSite: h.DaemonSite, Priority: h.Priority}
		var sref *Sched
		choose := func(p *Point) int {
			s := sref
			i := len(s.Points)
			if h.Invariant != nil {
				viols = append(viols, h.Invariant(s)...)
			}
			if i < len(f.prefix) {
				return f.prefix[i]
			}
			if o.Prune {
				k := s.Key()
				if _, ok := seen[k]; ok {
					cutAt = i
					return -1
				}
				seen[k] = struct{}{}
			}
			return 0
		}
		s, out := executeRef(cfg, h.Root, choose, &sref)
		st.Executions++
		st.Outcomes[out.String()]++
		if out != Cut {
			if h.Final != nil {
				viols = append(viols, h.Final(s, out)...)
			}
			if h.Observe != nil {
				st.Terminal[h.Observe(s, out)]++
			}
		} else {
			st.Cuts++
		}
		if out == Horizon {
			st.Complete = false
		}
		choices := make([]int, len(s.Points))
		for i, p := range s.Points {
			choices[i] = p.Chosen
		}
		if len(s.Points) > st.MaxDepth {
			st.MaxDepth = len(s.Points)
		}
		// expand alternatives of the points beyond the prefix
		cost := f.cost
		start := len(f.prefix)
		for i := start; i < len(s.Points); i++ {
			p := s.Points[i]
			st.Transitions++
			c := 0
			if p.RunningEnabled || o.AllCost {
				c = 1
			}
			if o.Bound >= 0 && cost+c > o.Bound {
				continue
			}
			for alt := p.N - 1; alt >= 1; alt-- {
				np := append(append(make([]int, 0, i+1), choices[:i]...), alt)
				stack = append(stack, frame{prefix: np, cost: cost + c})
			}
		}
		_ = cutAt
		s.Finish()
		if h.Cleanup != nil {
			h.Cleanup()
		}
		if MultiAccessor != multi0 {
			// a second store accessor appeared: file operations are scheduling points from now
			// on, which changes the shape of every execution - start over with them enabled
			r := Explore(h, o)
			r.Restarted = true
			return r
		}
		if len(viols) > 0 {
			st.Violations += confirmAndReport(h, o, viols, choices, prevChoices)
		}
		prevChoices = choices
	}
	st.States = len(seen)
	if !o.Prune {
		st.States = st.Transitions
	}
	return st
}

func executeRef(cfg Config, root func(), choose func(p *Point) int, ref **Sched) (*Sched, Outcome) {
	s := &Sched{cfg: cfg, yield: make(chan struct{}), Values: map[string]any{}, choose: choose}
	*ref = s
	if s.cfg.MaxSteps == 0 {
		s.cfg.MaxSteps = 5000
	}
	cur = s
	t := s.newThread(nil, "root", root)
	t.Daemon = false
	out := s.loop()
	return s, out
}

// runOnce replays the given choices (then defaults) with tracing; returns log, outcome, observation.
func runOnce(h Harness, o Options, choices []int, violsOut *[]Viol, trace bool) ([]string, Outcome, string) {
	cfg := Config{Order: o.Order, MaxSteps: o.MaxSteps, HarnessKey: h.Key, DaemonSite: h.DaemonSite, Priority: h.Priority, Trace: trace}
	var sref *Sched
	choose := func(p *Point) int {
		i := len(sref.Points)
		if violsOut != nil && h.Invariant != nil {
			*violsOut = append(*violsOut, h.Invariant(sref)...)
		}
		if i < len(choices) {
			return choices[i]
		}
		return 0
	}
	s, out := executeRef(cfg, h.Root, choose, &sref)
	obs := ""
	if h.Observe != nil {
		obs = h.Observe(s, out)
	}
	if violsOut != nil && h.Final != nil {
		*violsOut = append(*violsOut, h.Final(s, out)...)
	}
	log := s.Log
	if out == Deadlock || out == Panicked {
		log = append(log, "-- blocked threads:")
		log = append(log, s.Blocked()...)
		if pv, stk := s.PanicInfo(); pv != nil {
			log = append(log, fmt.Sprintf("-- panic: %v\n%s", pv, stk))
		}
	}
	s.Finish()
	if h.Cleanup != nil {
		h.Cleanup()
	}
	return log, out, obs
}

// Replay runs one schedule and returns its violations and trace.
func Replay(h Harness, o Options, choices []int) ([]Viol, []string, Outcome) {
	var v []Viol
	log, out, _ := runOnce(h, o, choices, &v, true)
	return v, log, out
}

// confirmAndReport re-executes a violating schedule 5 times; the same violation keys must
// come back every time, otherwise the harness is broken (exit 2), never a VIOLATION.
func confirmAndReport(h Harness, o Options, viols []Viol, choices []int, prev []int) int {
	// the replay always runs to completion (the exploring execution may have been cut by
	// pruning right after an invariant violation), so it must show at least the same keys
	want := map[string]bool{}
	for _, x := range viols {
		want[x.Key] = true
	}
	var trace []string
	all := viols
	for k := 0; k < 5; k++ {
		v, log, _ := Replay(h, o, choices)
		trace = log
		got := map[string]bool{}
		for _, x := range v {
			got[x.Key] = true
		}
		missing := ""
		for key := range want {
			if !got[key] {
				missing = key
			}
		}
		if missing != "" {
			// Not reproducible from a fresh world.  The harness resets its own state between
			// executions, so the remaining suspect is state kept by the CODE UNDER TEST across
			// executions (package-level caches, pools).  A server process lives through many
			// connections/requests, so that is real behaviour: try to reproduce the violation
			// as "previous execution, then this one" and report it as history-dependent.
			ok := 0
			for r := 0; r < 3 && prev != nil; r++ {
				Replay(h, o, prev)
				v2, log2, _ := Replay(h, o, choices)
				g2 := map[string]bool{}
				for _, x := range v2 {
					g2[x.Key] = true
				}
				if g2[missing] {
					ok++
					trace = append([]string{"-- after a previous execution with choices " + fmt.Sprint(prev) + " in the same process:"}, log2...)
				}
			}
			if ok < 2 {
				fmt.Fprintf(os.Stderr, "verifmc: violation %q not reproducible on replay %d (harness %s): replay shows %q\nchoices %v\n", missing, k, h.Name, violKeys(v), choices)
				os.Exit(2)
			}
			n := 0
			seen := map[string]bool{}
			for _, x := range viols {
				if seen[x.Key] {
					continue
				}
				seen[x.Key] = true
				n++
				if o.Report != nil {
					x.Desc = "[depends on state the code under test keeps across executions in one process] " + x.Desc
					o.Report(x, choices, trace)
				}
			}
			return n
		}
		if k == 0 {
			all = append(all, v...)
		}
	}
	n := 0
	seen := map[string]bool{}
	for _, v := range all {
		if seen[v.Key] {
			continue
		}
		seen[v.Key] = true
		n++
		if o.Report != nil {
			o.Report(v, choices, trace)
		}
	}
	return n
}

func violKeys(v []Viol) string {
	m := map[string]bool{}
	var ks []string
	for _, x := range v {
		if !m[x.Key] {
			m[x.Key] = true
			ks = append(ks, x.Key)
		}
	}
	return strings.Join(ks, ",")
}
