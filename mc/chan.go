package verifmc

import "fmt"

type chanCore struct {
	name   string
	cap    int
	buf    []any
	closed bool
}

// Chan is the modelled channel; the rewriter replaces `chan T` by `*Chan[T]`.
// A nil *Chan behaves like a nil channel.
type Chan[T any] struct {
	c chanCore
}

// MakeChan creates a channel named after the creating thread (schedule independent).
func MakeChan[T any](n int) *Chan[T] {
	s := cur
	c := &Chan[T]{}
	c.c.cap = n
	if s != nil && s.running != nil {
		t := s.running
		c.c.name = fmt.Sprintf("%s.c%d", t.Name, t.nchan)
		t.nchan++
		s.chans = append(s.chans, &c.c)
	} else {
		c.c.name = "outside"
	}
	return c
}

func (c *Chan[T]) core() *chanCore {
	if c == nil {
		return nil
	}
	return &c.c
}

// McName is used by Repr to print channels canonically.
func (c *Chan[T]) McName() string {
	if c == nil {
		return "nilchan"
	}
	return c.c.name
}

func (c *Chan[T]) Len() int {
	if c == nil {
		return 0
	}
	return len(c.c.buf)
}

func (c *Chan[T]) Cap() int {
	if c == nil {
		return 0
	}
	return c.c.cap
}

func (c *Chan[T]) Send(site string, v T) {
	op := &pendingOp{kind: opComm, site: site, cases: []*commCase{{ch: c.core(), dir: dirSend, val: v}}}
	cur.park(op)
}

func (c *Chan[T]) Recv(site string) T {
	v, _ := c.Recv2(site)
	return v
}

func (c *Chan[T]) Recv2(site string) (T, bool) {
	cc := &commCase{ch: c.core(), dir: dirRecv}
	op := &pendingOp{kind: opComm, site: site, cases: []*commCase{cc}}
	cur.park(op)
	var zero T
	if !cc.rok || cc.rval == nil {
		if cc.rok {
			return zero, true
		}
		return zero, false
	}
	return cc.rval.(T), true
}

// RecvHome is Recv2 for the head of a `for v := range ch` loop (history reset point).
func (c *Chan[T]) RecvHome(site string) (T, bool) {
	cc := &commCase{ch: c.core(), dir: dirRecv}
	op := &pendingOp{kind: opComm, site: site, home: true, cases: []*commCase{cc}}
	cur.park(op)
	var zero T
	if !cc.rok || cc.rval == nil {
		return zero, cc.rok
	}
	return cc.rval.(T), true
}

func (c *Chan[T]) Close(site string) {
	cur.park(&pendingOp{kind: opClose, site: site, closeCh: c.core()})
}

// TrySend is a non-blocking send performed atomically by the running thread without a
// scheduling point (used by shims that model runtime-internal sends: timers, signals).
func (c *Chan[T]) TrySend(v T) bool {
	s := cur
	ch := c.core()
	if ch == nil || ch.closed {
		return false
	}
	if p, px := s.firstParked(ch, dirRecv, nil); p != nil && len(ch.buf) == 0 {
		pc := p.pend.cases[px]
		pc.rval, pc.rok = v, true
		s.finishPassive(p, px)
		return true
	}
	if len(ch.buf) < ch.cap {
		ch.buf = append(ch.buf, v)
		return true
	}
	return false
}

// Drain removes all buffered values without a scheduling point (timer Stop/Reset semantics
// of Go >= 1.23: no stale values after Stop/Reset).
func (c *Chan[T]) Drain() {
	if c != nil {
		c.c.buf = nil
	}
}

// ---- select ---------------------------------------------------------------------------

// Sel is one select statement in flight.
type Sel struct {
	op *pendingOp
}

func NewSelect(site string, home bool) *Sel {
	return &Sel{op: &pendingOp{kind: opComm, site: site, home: home}}
}

// RecvCase is a handle to read the received value after Wait.
type RecvCase[T any] struct{ c *commCase }

func AddRecv[T any](s *Sel, ch *Chan[T]) RecvCase[T] {
	cc := &commCase{ch: ch.core(), dir: dirRecv}
	s.op.cases = append(s.op.cases, cc)
	return RecvCase[T]{cc}
}

func AddSend[T any](s *Sel, ch *Chan[T], v T) {
	s.op.cases = append(s.op.cases, &commCase{ch: ch.core(), dir: dirSend, val: v})
}

func (r RecvCase[T]) Val() T {
	var zero T
	if !r.c.rok || r.c.rval == nil {
		return zero
	}
	return r.c.rval.(T)
}

func (r RecvCase[T]) Ok() bool { return r.c.rok }

// Wait blocks until one case completed and returns its index (-1 = default).
func (s *Sel) Wait(hasDefault bool) int {
	s.op.hasDefault = hasDefault
	cur.park(s.op)
	return s.op.chosen
}

// CapLimit, when > 0, scales every channel capacity of the rewritten code down to at most
// CapLimit (the "scaled systems" of C10); 0 keeps the real capacities.
var CapLimit int

func ScaleCap(n int) int {
	if CapLimit > 0 && n > CapLimit {
		return CapLimit
	}
	return n
}
