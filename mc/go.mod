module github.com/whawty/auth/internal/verifmc

go 1.23
