// Package verifmc is a hand-written controlled scheduler and stateless/stateful explorer
// for Go code whose concurrency consists of channels, select, goroutines, timers, signals
// and a few blocking environment calls (DESIGN.md 2.1).  The code under test is bound to
// it by the source-to-source rewriter /verif/tools/mcrewrite; nothing here is sampled.
//
// Execution model: every logical thread is a real goroutine, exactly one of which runs at
// any time.  A thread announces each visible operation (channel send/receive/select/close,
// environment call) and parks; the scheduler computes the set of enabled transitions in a
// canonical order, takes the one the explorer prescribes, applies its effect atomically
// and resumes the owning thread until its next announcement.
package verifmc

import (
	"fmt"
	"os"
	"runtime/debug"
	"sort"
	"strings"
)

type killSentinel struct{}

type opKind int

const (
	opStart  opKind = iota // a spawned thread that has not run yet
	opResume               // a thread whose operation was completed passively
	opComm                 // send / recv / select
	opClose
	opExt // environment operation with its own enabledness predicate
)

type caseDir int

const (
	dirSend caseDir = iota
	dirRecv
)

type commCase struct {
	ch   *chanCore // nil = nil channel (never ready)
	dir  caseDir
	val  any // value to send
	rval any // received value
	rok  bool
}

type pendingOp struct {
	kind       opKind
	site       string
	home       bool
	cases      []*commCase
	hasDefault bool
	chosen     int // result: index of completed case, -1 = default
	// opExt
	extEnabled func() bool
	extFire    func()
	extDesc    string
	// opClose
	closeCh *chanCore
}

// Thread is one logical thread of the system under exploration.
type Thread struct {
	s        *Sched
	id       int
	Name     string // canonical (schedule-independent) name
	Site     string
	Daemon   bool
	wake     chan struct{}
	pend     *pendingOp
	parkSeq  int
	done     bool
	dying    bool
	hist     []string // since-home history, part of the state key
	nchan    int
	nkids    int
	Local    func() string // optional harness-provided digest of thread-local state
	Class    string        // threads of one class with identical scripts: unstarted ones are interchangeable
	started  bool
	Parent   *Thread
	lastDone *pendingOp // communication completed passively, not yet resumed
}

// transition is one enabled successor.
type transition struct {
	t      *Thread // owner (nil for environment transitions)
	caseIx int     // for opComm: which case; -1 default
	peer   *Thread // counterparty completed passively (rendezvous / hand-off)
	peerCx int
	env    *envEvent
	desc   string
}

type envEvent struct {
	desc string
	fire func()
}

// EnvSource lets shim packages (vtime) contribute environment transitions.
type EnvSource interface {
	Enabled() []EnvTransition
	Key() string
}

type EnvTransition struct {
	Desc string
	Fire func()
}

// Point is one scheduling point of an execution, as seen by the explorer.
type Point struct {
	N              int  // number of enabled transitions
	Chosen         int  // index taken
	RunningEnabled bool // the previously running thread could have continued
	SameThread     []bool
	Desc           []string
	KeyAfter       string
}

// Config of one execution.
type Config struct {
	Order      int // bit0: other threads in descending id order; bit1: last ready select case first
	MaxSteps   int
	WantKeys   bool
	HarnessKey func() string
	DaemonSite func(site string) bool // which spawn sites create daemon threads (default: all but harness sites)
	// Priority: threads whose transitions are taken eagerly (first enabled one, no branching).
	// Only sound for threads whose remaining behaviour is independent of all other threads;
	// used to model environment processes that finish "immediately" (see DESIGN.md).
	Priority func(t *Thread) bool
	Trace    bool
}

// Sched is the scheduler of ONE execution.
type Sched struct {
	cfg         Config
	threads     []*Thread
	running     *Thread
	yield       chan struct{}
	seq         int
	chans       []*chanCore
	envs        []EnvSource
	Points      []Point
	Steps       int
	Log         []string // trace of fired transitions
	aborted     bool
	panicVal    any
	panicStk    string
	Values      map[string]any // per-execution storage for shims/harness
	inQuiet     bool
	choose      func(p *Point) int
	lastKeyText string
	active      bool     // a thread is running (the scheduler goroutine is blocked)
	Enabled     []string // descriptions of the transitions enabled at the current scheduling point
	accessors   map[*Thread]bool
}

var cur *Sched

// Cur returns the scheduler of the running execution (nil outside one).
func Cur() *Sched { return cur }

// Me returns the running thread.
func Me() *Thread {
	if cur == nil {
		return nil
	}
	return cur.running
}

func (s *Sched) AddEnv(e EnvSource) { s.envs = append(s.envs, e) }

// Outcome of one execution.
type Outcome int

const (
	Quiescent Outcome = iota // no transition enabled, all non-daemon threads finished
	Deadlock                 // no transition enabled, some non-daemon thread unfinished
	Horizon                  // step budget exhausted
	Cut                      // explorer asked to stop (pruned)
	Panicked
)

func (o Outcome) String() string {
	return [...]string{"quiescent", "deadlock", "horizon", "cut", "panic"}[o]
}

// Execute runs root as thread 0 under the scheduler; choose is called at every scheduling
// point with the canonical list of enabled transitions and returns the index to take
// (or -1 to cut the execution).
func Execute(cfg Config, root func(), choose func(p *Point) int) (*Sched, Outcome) {
	s := &Sched{cfg: cfg, yield: make(chan struct{}), Values: map[string]any{}, choose: choose}
	if s.cfg.MaxSteps == 0 {
		s.cfg.MaxSteps = 5000
	}
	cur = s
	t := s.newThread(nil, "root", root)
	t.Daemon = false
	out := s.loop()
	return s, out
}

func (s *Sched) newThread(parent *Thread, site string, f func()) *Thread {
	t := &Thread{s: s, id: len(s.threads), Site: site, wake: make(chan struct{}), Parent: parent}
	if parent == nil {
		t.Name = site
	} else {
		t.Name = fmt.Sprintf("%s/%s#%d", parent.Name, site, parent.nkids)
		parent.nkids++
	}
	if s.cfg.DaemonSite != nil {
		t.Daemon = s.cfg.DaemonSite(site)
	} else {
		t.Daemon = !strings.HasPrefix(site, "client")
	}
	t.pend = &pendingOp{kind: opStart, site: site}
	s.seq++
	t.parkSeq = s.seq
	s.threads = append(s.threads, t)
	go func() {
		defer func() {
			if r := recover(); r != nil {
				if _, ok := r.(killSentinel); !ok {
					s.panicVal = r
					s.panicStk = string(debug.Stack())
				}
			}
			t.done = true
			t.pend = nil
			s.yield <- struct{}{}
		}()
		<-t.wake
		if t.dying {
			panic(killSentinel{})
		}
		t.started = true
		f()
	}()
	return t
}

// Go spawns a new logical thread (the rewriter turns `go f(x)` into this).
func Go(site string, f func()) {
	s := cur
	if s == nil {
		panic("verifmc.Go outside an execution")
	}
	s.newThread(s.running, site, f)
}

// GoClient spawns a non-daemon harness thread with a given class name.
func GoClient(name string, f func()) *Thread {
	s := cur
	t := s.newThread(s.running, "client:"+name, f)
	t.Daemon = false
	return t
}

// GoClientClass spawns a non-daemon harness thread belonging to a symmetry class.
func GoClientClass(name, class string, f func()) *Thread {
	t := GoClient(name, f)
	t.Class = class
	return t
}

// AtHome tells whether the thread is parked at a loop-head select / range.
func (t *Thread) AtHome() bool { return t.pend != nil && t.pend.home }

// PendingSite returns the source site of the pending operation.
func (t *Thread) PendingSite() string {
	if t.pend == nil {
		return ""
	}
	return t.pend.site
}

// park announces op and blocks until the scheduler completed it.
func (s *Sched) park(op *pendingOp) {
	t := s.running
	if t == nil {
		panic("verifmc: operation outside a scheduled thread")
	}
	if t.dying {
		panic(killSentinel{})
	}
	if op.home {
		t.hist = t.hist[:0]
	}
	t.pend = op
	s.seq++
	t.parkSeq = s.seq
	s.yield <- struct{}{}
	<-t.wake
	if t.dying {
		panic(killSentinel{})
	}
}

// FileOpsInterleave switches the file-operation hooks of the rewritten store package on.
var FileOpsInterleave = true

// FileOp is called (through mcrewrite's fileops mode) before every file-system operation of
// package store.  As long as a single agent thread uses the store (the dispatcher), file
// operations are not scheduling points - a store operation is one atomic step, as the
// design of the agent intends.  As soon as a SECOND thread touches the store, every file
// operation of every accessor becomes a scheduling point, so that check-then-act races
// inside the library (exists -> open -> rename) are explored at system-call granularity.
func FileOp(site string) {
	s := cur
	if s == nil || !s.active || !FileOpsInterleave {
		return
	}
	t := s.running
	if t == nil || t.dying || t.Name == "root" || strings.HasPrefix(t.Site, "client") {
		return // harness threads: set-up and observers
	}
	if s.accessors == nil {
		s.accessors = map[*Thread]bool{}
	}
	s.accessors[t] = true
	if len(s.accessors) > 1 {
		// from now on (and, after the explorer restarted, from the very beginning of every
		// execution) file operations are scheduling points
		MultiAccessor = true
	}
	if MultiAccessor {
		Yield("fileop@" + site)
	}
}

// MultiAccessor is set (process-wide) once two agent threads were seen inside the store.
var MultiAccessor bool

// StoreAccessors returns how many distinct agent threads performed store file operations.
func (s *Sched) StoreAccessors() int { return len(s.accessors) }

// Yield is an explicit scheduling point without effect.
func Yield(site string) {
	s := cur
	s.park(&pendingOp{kind: opExt, site: site, extDesc: "yield", extEnabled: func() bool { return true }, extFire: func() {}})
}

// Ext performs a modelled blocking environment operation: it is announced, becomes
// enabled when enabled() holds, and fire() is applied atomically when it is scheduled.
func Ext(site, desc string, enabled func() bool, fire func()) {
	s := cur
	s.park(&pendingOp{kind: opExt, site: site, extDesc: desc, extEnabled: enabled, extFire: fire})
	s.running.hist = append(s.running.hist, site+":"+desc)
}

func (s *Sched) enabled() []transition {
	var out []transition
	add := func(t *Thread) {
		op := t.pend
		if op == nil {
			return
		}
		switch op.kind {
		case opStart, opResume:
			if op.kind == opStart && t.Class != "" {
				// symmetry: of the unstarted threads of one class only the lowest id is offered
				for _, o := range s.threads {
					if o.id < t.id && o.Class == t.Class && o.pend != nil && o.pend.kind == opStart {
						return
					}
				}
			}
			out = append(out, transition{t: t, desc: fmt.Sprintf("%s:%s", t.Name, map[opKind]string{opStart: "start", opResume: "resume"}[op.kind])})
		case opClose:
			out = append(out, transition{t: t, desc: fmt.Sprintf("%s:close(%s)", t.Name, op.closeCh.name)})
		case opExt:
			if op.extEnabled() {
				out = append(out, transition{t: t, desc: fmt.Sprintf("%s:%s@%s", t.Name, op.extDesc, op.site)})
			}
		case opComm:
			var ready []transition
			for i, c := range op.cases {
				if c.ch == nil {
					continue
				}
				if tr, ok := s.caseReady(t, i, c); ok {
					ready = append(ready, tr)
				}
			}
			if len(ready) == 0 && op.hasDefault && !s.anyCompletable(t, op) {
				// (a case whose hand-off is owned by a counterparty that parked later is not "ready"
				// here, but it can complete: a real select would take it, never the default)
				ready = append(ready, transition{t: t, caseIx: -1, desc: fmt.Sprintf("%s:select-default@%s", t.Name, op.site)})
			}
			if s.cfg.Order&2 != 0 {
				for i, j := 0, len(ready)-1; i < j; i, j = i+1, j-1 {
					ready[i], ready[j] = ready[j], ready[i]
				}
			}
			out = append(out, ready...)
		}
	}
	if s.running != nil && !s.running.done {
		add(s.running)
	}
	others := make([]*Thread, 0, len(s.threads))
	for _, t := range s.threads {
		if t != s.running && !t.done {
			others = append(others, t)
		}
	}
	if s.cfg.Order&1 != 0 {
		sort.Slice(others, func(i, j int) bool { return others[i].id > others[j].id })
	}
	for _, t := range others {
		add(t)
	}
	for _, e := range s.envs {
		for _, et := range e.Enabled() {
			et := et
			out = append(out, transition{env: &envEvent{desc: et.Desc, fire: et.Fire}, desc: "env:" + et.Desc})
		}
	}
	return out
}

// QuietExcept reports whether nothing is enabled apart from the threads for which skip holds:
// no other thread can take a step and no environment transition (timer, ...) is pending.
// Harnesses use it for "the client waits until the system under test is idle" operations
// (the condition of an Ext op); nested evaluation (two such waiters) answers false.
func (s *Sched) QuietExcept(skip func(*Thread) bool) bool {
	if s.inQuiet {
		return false
	}
	s.inQuiet = true
	defer func() { s.inQuiet = false }()
	for _, t := range s.threads {
		if t.done || skip(t) {
			continue
		}
		op := t.pend
		if op == nil {
			return false
		}
		switch op.kind {
		case opStart, opResume, opClose:
			return false
		case opExt:
			if op.extEnabled() {
				return false
			}
		case opComm:
			if op.hasDefault {
				return false
			}
			for i, c := range op.cases {
				if c.ch == nil {
					continue
				}
				if _, ok := s.caseReady(t, i, c); ok {
					return false
				}
			}
		}
	}
	for _, e := range s.envs {
		if len(e.Enabled()) > 0 {
			return false
		}
	}
	return true
}

// caseReady decides whether case i of thread t's pending communication can complete now.
// A rendezvous / hand-off with a parked counterparty is attributed to the party that
// parked later, so each pair appears once.
func (s *Sched) caseReady(t *Thread, i int, c *commCase) (transition, bool) {
	ch := c.ch
	tr := transition{t: t, caseIx: i}
	if c.dir == dirSend {
		if ch.closed {
			tr.desc = fmt.Sprintf("%s:send-on-closed(%s)", t.Name, ch.name)
			return tr, true
		}
		if p, px := s.firstParked(ch, dirRecv, t); p != nil {
			if p.parkSeq < t.parkSeq {
				tr.peer, tr.peerCx = p, px
				tr.desc = fmt.Sprintf("%s:send(%s)->%s", t.Name, ch.name, p.Name)
				return tr, true
			}
			return tr, false // the receiver (later arriver) owns the transition
		}
		if len(ch.buf) < ch.cap {
			tr.desc = fmt.Sprintf("%s:send(%s)", t.Name, ch.name)
			return tr, true
		}
		return tr, false
	}
	// receive
	if len(ch.buf) > 0 {
		tr.desc = fmt.Sprintf("%s:recv(%s)", t.Name, ch.name)
		return tr, true
	}
	if ch.closed {
		tr.desc = fmt.Sprintf("%s:recv-closed(%s)", t.Name, ch.name)
		return tr, true
	}
	if p, px := s.firstParked(ch, dirSend, t); p != nil && p.parkSeq < t.parkSeq {
		tr.peer, tr.peerCx = p, px
		tr.desc = fmt.Sprintf("%s:recv(%s)<-%s", t.Name, ch.name, p.Name)
		return tr, true
	}
	return tr, false
}

// anyCompletable: could some case of t's pending select complete right now, whoever owns the
// transition?  (send: closed channel, a parked receiver, or room in the buffer; receive: a
// buffered value, a closed channel, or a parked sender)
func (s *Sched) anyCompletable(t *Thread, op *pendingOp) bool {
	for _, c := range op.cases {
		if c.ch == nil {
			continue
		}
		ch := c.ch
		if c.dir == dirSend {
			if p, _ := s.firstParked(ch, dirRecv, t); ch.closed || p != nil || len(ch.buf) < ch.cap {
				return true
			}
		} else {
			if p, _ := s.firstParked(ch, dirSend, t); len(ch.buf) > 0 || ch.closed || p != nil {
				return true
			}
		}
	}
	return false
}

// firstParked returns the earliest-parked thread (other than me) with a pending case of
// direction dir on ch (FIFO, like the runtime's wait queues).
func (s *Sched) firstParked(ch *chanCore, dir caseDir, me *Thread) (*Thread, int) {
	var best *Thread
	bx := 0
	for _, t := range s.threads {
		if t == me || t.done || t.pend == nil || t.pend.kind != opComm {
			continue
		}
		for i, c := range t.pend.cases {
			if c.ch == ch && c.dir == dir {
				if best == nil || t.parkSeq < best.parkSeq {
					best, bx = t, i
				}
				break
			}
		}
	}
	return best, bx
}

func (s *Sched) fire(tr transition) {
	if tr.env != nil {
		tr.env.fire()
		return
	}
	t := tr.t
	op := t.pend
	switch op.kind {
	case opStart, opResume:
	case opExt:
		op.extFire()
	case opClose:
		ch := op.closeCh
		if ch.closed {
			panic("verifmc: close of closed channel " + ch.name)
		}
		ch.closed = true
		// all parked receivers complete with the zero value
		for {
			p, px := s.firstParked(ch, dirRecv, t)
			if p == nil {
				break
			}
			p.pend.cases[px].rval, p.pend.cases[px].rok = nil, false
			s.finishPassive(p, px)
		}
	case opComm:
		if tr.caseIx < 0 {
			op.chosen = -1
			break
		}
		c := op.cases[tr.caseIx]
		ch := c.ch
		op.chosen = tr.caseIx
		if c.dir == dirSend {
			if ch.closed {
				panic("verifmc: send on closed channel " + ch.name)
			}
			if tr.peer != nil {
				pc := tr.peer.pend.cases[tr.peerCx]
				pc.rval, pc.rok = c.val, true
				s.finishPassive(tr.peer, tr.peerCx)
			} else {
				ch.buf = append(ch.buf, c.val)
			}
		} else {
			if len(ch.buf) > 0 {
				c.rval, c.rok = ch.buf[0], true
				ch.buf = ch.buf[1:]
				// a sender parked on the full buffer moves its value in (FIFO hand-off)
				if p, px := s.firstParked(ch, dirSend, t); p != nil && ch.cap > 0 {
					ch.buf = append(ch.buf, p.pend.cases[px].val)
					s.finishPassive(p, px)
				}
			} else if ch.closed {
				c.rval, c.rok = nil, false
			} else {
				pc := tr.peer.pend.cases[tr.peerCx]
				c.rval, c.rok = pc.val, true
				s.finishPassive(tr.peer, tr.peerCx)
			}
		}
	}
}

// finishPassive marks p's pending communication as completed with case px; p becomes
// runnable (an always-enabled resume transition).
func (s *Sched) finishPassive(p *Thread, px int) {
	op := p.pend
	op.chosen = px
	p.lastDone = op
	p.pend = &pendingOp{kind: opResume, site: op.site}
}

func (s *Sched) loop() Outcome {
	defer func() { cur = nil }()
	// the root thread is started by the first transition
	for {
		if s.panicVal != nil {
			s.killAll()
			return Panicked
		}
		en := s.enabled()
		if len(en) == 0 {
			out := Quiescent
			for _, t := range s.threads {
				if !t.done && !t.Daemon {
					out = Deadlock
				}
			}
			return out
		}
		if s.Steps >= s.cfg.MaxSteps {
			return Horizon
		}
		if s.cfg.Priority != nil {
			for _, tr := range en {
				if tr.t != nil && s.cfg.Priority(tr.t) {
					en = []transition{tr}
					break
				}
			}
		}
		p := Point{N: len(en)}
		p.RunningEnabled = s.running != nil && !s.running.done && en[0].t == s.running
		p.SameThread = make([]bool, len(en))
		p.Desc = make([]string, len(en))
		for i, tr := range en {
			p.SameThread[i] = tr.t != nil && tr.t == s.running
			p.Desc[i] = tr.desc
		}
		s.Enabled = p.Desc
		c := s.choose(&p)
		if c < 0 {
			return Cut
		}
		if c >= len(en) {
			fmt.Fprintf(os.Stderr, "verifmc: replay divergence: choice %d of %d at step %d\n%s\n", c, len(en), s.Steps, strings.Join(s.Log, "\n"))
			os.Exit(2)
		}
		p.Chosen = c
		tr := en[c]
		s.Steps++
		if s.cfg.Trace {
			s.Log = append(s.Log, tr.desc)
		}
		s.fire(tr)
		if tr.t != nil {
			t := tr.t
			op := t.pend
			s.running = t
			t.pend = nil
			s.recordHist(t, op)
			s.active = true
			t.wake <- struct{}{}
			<-s.yield
			s.active = false
		}
		if s.cfg.WantKeys {
			p.KeyAfter = s.Key()
		}
		s.Points = append(s.Points, p)
	}
}

func (s *Sched) recordHist(t *Thread, op *pendingOp) {
	switch op.kind {
	case opComm:
		if op.chosen < 0 {
			t.hist = append(t.hist, op.site+":default")
		} else {
			c := op.cases[op.chosen]
			if c.dir == dirRecv {
				t.hist = append(t.hist, fmt.Sprintf("%s:r%d=%s", op.site, op.chosen, Repr(c.rval)))
			} else {
				t.hist = append(t.hist, fmt.Sprintf("%s:s%d", op.site, op.chosen))
			}
		}
	case opResume:
		// the completed operation's result was recorded in lastDone
		if d := t.lastDone; d != nil {
			t.lastDone = nil
			s.recordHist(t, d)
		}
	}
}

// Finish tears the execution down: every parked thread is unwound.
func (s *Sched) Finish() { s.killAll() }

func (s *Sched) killAll() {
	cur = s
	for _, t := range s.threads {
		if t.done {
			continue
		}
		t.dying = true
		s.running = t
		t.wake <- struct{}{}
		<-s.yield
	}
	cur = nil
}

// Blocked lists the unfinished threads with their pending operations (for deadlock reports).
func (s *Sched) Blocked() []string {
	var out []string
	for _, t := range s.threads {
		if t.done {
			continue
		}
		out = append(out, fmt.Sprintf("%s daemon=%v pending=%s", t.Name, t.Daemon, s.descPending(t)))
	}
	return out
}

func (s *Sched) descPending(t *Thread) string {
	op := t.pend
	if op == nil {
		return "running"
	}
	switch op.kind {
	case opStart:
		return "start"
	case opResume:
		return "resume"
	case opClose:
		return "close " + op.closeCh.name
	case opExt:
		return "ext " + op.extDesc + "@" + op.site
	}
	var cs []string
	for _, c := range op.cases {
		n := "nil"
		if c.ch != nil {
			n = fmt.Sprintf("%s[%d/%d]", c.ch.name, len(c.ch.buf), c.ch.cap)
		}
		if c.dir == dirSend {
			cs = append(cs, "send "+n+" "+Repr(c.val))
		} else {
			cs = append(cs, "recv "+n)
		}
	}
	d := ""
	if op.hasDefault {
		d = " +default"
	}
	return fmt.Sprintf("@%s {%s}%s", op.site, strings.Join(cs, "; "), d)
}

// PanicInfo returns the value and stack of a panic raised by a thread.
func (s *Sched) PanicInfo() (any, string) { return s.panicVal, s.panicStk }

// Running returns the thread that executed the last thread transition.
func (s *Sched) Running() *Thread { return s.running }

// Threads returns all threads (for harness oracles).
func (s *Sched) Threads() []*Thread { return s.threads }

func (t *Thread) Done() bool      { return t.done }
func (t *Thread) Pending() string { return t.s.descPending(t) }
