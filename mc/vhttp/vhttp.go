// Package vhttp is the modelled replacement of net/http for the agent's remote-upgrade
// client (cmd/whawty-auth/store.go only): requests are real http.Request values, the
// round trip is a modelled blocking operation answered by a harness "master".
package vhttp

import (
	"io"
	"net/http"

	mc "github.com/whawty/auth/internal/verifmc"
)

type (
	Request  = http.Request
	Response = http.Response
	Header   = http.Header
)

const (
	StatusOK = http.StatusOK
)

func NewRequest(method, url string, body io.Reader) (*Request, error) {
	return http.NewRequest(method, url, body)
}

// Master answers a request (runs in the caller's thread, so an in-process master may
// itself perform scheduled operations).
type Master func(req *Request) (resp *Response, err error)

type World struct {
	Master   Master
	Stall    bool // the round trip never completes
	Requests int
}

func GetWorld() *World {
	s := mc.Cur()
	w, ok := s.Values["vhttp"].(*World)
	if !ok {
		w = &World{}
		s.Values["vhttp"] = w
	}
	return w
}

func WorldOf(s *mc.Sched) *World {
	w, _ := s.Values["vhttp"].(*World)
	if w == nil {
		w = &World{}
	}
	return w
}

type Client struct {
	Timeout int64
}

func (c *Client) Do(req *Request) (*Response, error) {
	w := GetWorld()
	w.Requests++
	mc.Ext("vhttp.Do", "http round trip", func() bool { return !w.Stall && w.Master != nil }, func() {})
	return w.Master(req)
}
