// Package vhttp is the modelled replacement of net/http for the agent's remote-upgrade
// client (cmd/whawty-auth/store.go only): requests are real http.Request values, the
// round trip is a modelled blocking operation answered by a harness "master".
package vhttp

import (
	"io"
	"net/http"
	"net/url"
	"time"

	mc "github.com/whawty/auth/internal/verifmc"
)

type (
	Request  = http.Request
	Response = http.Response
	Header   = http.Header
)

const (
	StatusOK = http.StatusOK
)

func NewRequest(method, url string, body io.Reader) (*Request, error) {
	return http.NewRequest(method, url, body)
}

// Master answers a request (runs in the caller's thread, so an in-process master may
// itself perform scheduled operations).
type Master func(req *Request) (resp *Response, err error)

type World struct {
	Master   Master
	Stall    bool // the round trip never completes
	Requests int
	open     map[*Transport]int // connections pinned by response bodies that were neither read to EOF nor closed
}

var ProxyFromEnvironment = http.ProxyFromEnvironment

// Transport mirrors the fields of http.Transport a client configuration typically sets. Only
// MaxConnsPerHost has a modelled effect: a round trip needs a connection, a connection stays
// in use until the response body has been read to its end or closed, and with the limit
// reached Do blocks (the limit is scaled like channel capacities, see mc.CapLimit).
type Transport struct {
	Proxy                  func(*Request) (*url.URL, error)
	MaxConnsPerHost        int
	MaxIdleConns           int
	MaxIdleConnsPerHost    int
	IdleConnTimeout        time.Duration
	ResponseHeaderTimeout  time.Duration
	TLSHandshakeTimeout    time.Duration
	ExpectContinueTimeout  time.Duration
	DisableKeepAlives      bool
	DisableCompression     bool
	ForceAttemptHTTP2      bool
	MaxResponseHeaderBytes int64
}

type pinnedBody struct {
	io.ReadCloser
	release func()
}

func (b *pinnedBody) Read(p []byte) (int, error) {
	n, err := b.ReadCloser.Read(p)
	if err == io.EOF {
		b.release()
	}
	return n, err
}

func (b *pinnedBody) Close() error {
	b.release()
	return b.ReadCloser.Close()
}

func GetWorld() *World {
	s := mc.Cur()
	w, ok := s.Values["vhttp"].(*World)
	if !ok {
		w = &World{}
		s.Values["vhttp"] = w
	}
	return w
}

func WorldOf(s *mc.Sched) *World {
	w, _ := s.Values["vhttp"].(*World)
	if w == nil {
		w = &World{}
	}
	return w
}

type Client struct {
	Transport *Transport
	Timeout   time.Duration
}

func (c *Client) Do(req *Request) (*Response, error) {
	w := GetWorld()
	w.Requests++
	tr := c.Transport
	limit := 0
	if tr != nil && tr.MaxConnsPerHost > 0 {
		limit = mc.ScaleCap(tr.MaxConnsPerHost)
		if w.open == nil {
			w.open = map[*Transport]int{}
		}
	}
	mc.Ext("vhttp.Do", "http round trip", func() bool { return !w.Stall && w.Master != nil && (limit == 0 || w.open[tr] < limit) }, func() {
		if limit > 0 {
			w.open[tr]++
		}
	})
	resp, err := w.Master(req)
	if limit > 0 {
		released := false
		release := func() {
			if !released {
				released = true
				w.open[tr]--
			}
		}
		if err != nil || resp == nil || resp.Body == nil {
			release()
		} else {
			resp.Body = &pinnedBody{ReadCloser: resp.Body, release: release}
		}
	}
	return resp, err
}
