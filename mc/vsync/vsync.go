// Package vsync is the modelled replacement of package sync for rewritten code: blocking
// operations (Mutex.Lock, RWMutex.Lock/RLock, WaitGroup.Wait, Once.Do) are scheduling points
// of the controlled scheduler, so a thread that can never proceed shows up as a deadlock of
// the explored execution instead of freezing the real goroutine behind the scheduler's back.
// Outside an execution every type falls back to the real primitive.
package vsync

import (
	"fmt"
	"sort"
	"sync"

	mc "github.com/whawty/auth/internal/verifmc"
)

type (
	Pool   = sync.Pool
	Map    = sync.Map
	Locker = sync.Locker
)

// world keeps the state of all modelled primitives of one execution (part of the state key).
type world struct {
	objs []fmt.Stringer
}

func (w *world) Enabled() []mc.EnvTransition { return nil }
func (w *world) Key() string {
	var ks []string
	for _, o := range w.objs {
		ks = append(ks, o.String())
	}
	sort.Strings(ks)
	return fmt.Sprint("sync", ks)
}

func register(o fmt.Stringer) {
	s := mc.Cur()
	if s == nil {
		return
	}
	w, ok := s.Values["vsync"].(*world)
	if !ok {
		w = &world{}
		s.Values["vsync"] = w
		s.AddEnv(w)
	}
	w.objs = append(w.objs, o)
}

// ---- Mutex ---------------------------------------------------------------------------------

type Mutex struct {
	real   sync.Mutex
	locked bool
	reg    bool
}

func (m *Mutex) String() string { return fmt.Sprintf("mutex:%v", m.locked) }

func (m *Mutex) init() {
	if !m.reg {
		m.reg = true
		register(m)
	}
}

func (m *Mutex) Lock() {
	if mc.Cur() == nil {
		m.real.Lock()
		return
	}
	m.init()
	mc.Ext("sync.Mutex.Lock", "lock", func() bool { return !m.locked }, func() { m.locked = true })
}

func (m *Mutex) TryLock() bool {
	if mc.Cur() == nil {
		return m.real.TryLock()
	}
	m.init()
	mc.Yield("sync.Mutex.TryLock")
	if m.locked {
		return false
	}
	m.locked = true
	return true
}

func (m *Mutex) Unlock() {
	if mc.Cur() == nil {
		m.real.Unlock()
		return
	}
	if !m.locked {
		panic("sync: unlock of unlocked mutex")
	}
	m.locked = false
}

// ---- RWMutex -------------------------------------------------------------------------------

type RWMutex struct {
	real    sync.RWMutex
	writer  bool
	readers int
	reg     bool
}

func (m *RWMutex) String() string { return fmt.Sprintf("rwmutex:%v/%d", m.writer, m.readers) }

func (m *RWMutex) init() {
	if !m.reg {
		m.reg = true
		register(m)
	}
}

func (m *RWMutex) Lock() {
	if mc.Cur() == nil {
		m.real.Lock()
		return
	}
	m.init()
	mc.Ext("sync.RWMutex.Lock", "lock", func() bool { return !m.writer && m.readers == 0 }, func() { m.writer = true })
}

func (m *RWMutex) Unlock() {
	if mc.Cur() == nil {
		m.real.Unlock()
		return
	}
	if !m.writer {
		panic("sync: Unlock of unlocked RWMutex")
	}
	m.writer = false
}

func (m *RWMutex) RLock() {
	if mc.Cur() == nil {
		m.real.RLock()
		return
	}
	m.init()
	mc.Ext("sync.RWMutex.RLock", "rlock", func() bool { return !m.writer }, func() { m.readers++ })
}

func (m *RWMutex) RUnlock() {
	if mc.Cur() == nil {
		m.real.RUnlock()
		return
	}
	if m.readers <= 0 {
		panic("sync: RUnlock of unlocked RWMutex")
	}
	m.readers--
}

type rlocker RWMutex

func (r *rlocker) Lock()   { (*RWMutex)(r).RLock() }
func (r *rlocker) Unlock() { (*RWMutex)(r).RUnlock() }

func (m *RWMutex) RLocker() Locker { return (*rlocker)(m) }

// ---- WaitGroup -----------------------------------------------------------------------------

type WaitGroup struct {
	real sync.WaitGroup
	n    int
	reg  bool
}

func (w *WaitGroup) String() string { return fmt.Sprintf("waitgroup:%d", w.n) }

func (w *WaitGroup) Add(delta int) {
	if mc.Cur() == nil {
		w.real.Add(delta)
		return
	}
	if !w.reg {
		w.reg = true
		register(w)
	}
	w.n += delta
	if w.n < 0 {
		panic("sync: negative WaitGroup counter")
	}
}

func (w *WaitGroup) Done() { w.Add(-1) }

func (w *WaitGroup) Wait() {
	if mc.Cur() == nil {
		w.real.Wait()
		return
	}
	if !w.reg {
		w.reg = true
		register(w)
	}
	mc.Ext("sync.WaitGroup.Wait", "wait", func() bool { return w.n == 0 }, func() {})
}

// ---- Once ----------------------------------------------------------------------------------

type Once struct {
	m    Mutex
	done bool
}

func (o *Once) Do(f func()) {
	o.m.Lock()
	defer o.m.Unlock()
	if !o.done {
		defer func() { o.done = true }()
		f()
	}
}
