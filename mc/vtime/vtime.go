// Package vtime is the modelled replacement of package time for rewritten code: a virtual
// clock per execution; timers are environment transitions of the scheduler (the earliest
// armed timer may fire at any scheduling point, which advances the clock to its deadline).
// Outside an execution (sequential harnesses) the clock is real time plus a manually
// advanced offset.
package vtime

import (
	"fmt"
	"sort"
	"time"

	mc "github.com/whawty/auth/internal/verifmc"
)

type (
	Time     = time.Time
	Duration = time.Duration
	Month    = time.Month
)

const (
	Nanosecond  = time.Nanosecond
	Microsecond = time.Microsecond
	Millisecond = time.Millisecond
	Second      = time.Second
	Minute      = time.Minute
	Hour        = time.Hour
	RFC3339     = time.RFC3339
)

var (
	Unix          = time.Unix
	Date          = time.Date
	UTC           = time.UTC
	Local         = time.Local
	ParseDuration = time.ParseDuration
)

// base is fixed per process so that virtual timestamps are reproducible within a run.
var base = time.Unix(time.Now().Unix(), 0)

// offset is the manual clock offset used outside scheduler executions.
var offset Duration

// Advance moves the sequential (non-scheduled) virtual clock.
func Advance(d Duration) { offset += d }

// SetOffset sets the sequential virtual clock offset.
func SetOffset(d Duration) { offset = d }

type world struct {
	now    Duration
	timers []*Timer
	n      int
}

func getWorld() *world {
	s := mc.Cur()
	if s == nil {
		return nil
	}
	w, ok := s.Values["vtime"].(*world)
	if !ok {
		w = &world{}
		s.Values["vtime"] = w
		s.AddEnv(w)
	}
	return w
}

// Elapsed returns the virtual time elapsed in the running execution.
func Elapsed() Duration {
	if w := getWorld(); w != nil {
		return w.now
	}
	return offset
}

func Now() Time {
	if w := getWorld(); w != nil {
		return base.Add(w.now)
	}
	return time.Unix(time.Now().Unix(), 0).Add(offset)
}

func Since(t Time) Duration { return Now().Sub(t) }

// Timer mirrors time.Timer (Go >= 1.23 semantics: no stale value after Stop/Reset).
type Timer struct {
	C        *mc.Chan[Time]
	name     string
	armed    bool
	deadline Duration
}

func NewTimer(d Duration) *Timer {
	w := getWorld()
	if w == nil {
		panic("vtime.NewTimer outside a scheduler execution")
	}
	t := &Timer{C: mc.MakeChan[Time](1)}
	t.name = t.C.McName()
	t.armed = true
	t.deadline = w.now + d
	w.timers = append(w.timers, t)
	return t
}

func (t *Timer) Stop() bool {
	was := t.armed
	t.armed = false
	t.C.Drain()
	return was
}

func (t *Timer) Reset(d Duration) bool {
	w := getWorld()
	was := t.armed
	t.C.Drain()
	t.armed = true
	t.deadline = w.now + d
	return was
}

// After mirrors time.After.
func After(d Duration) *mc.Chan[Time] { return NewTimer(d).C }

// Sleep blocks the calling thread until the virtual clock passed d.
func Sleep(d Duration) {
	if mc.Cur() == nil {
		return
	}
	t := NewTimer(d)
	t.C.Recv("vtime.Sleep")
}

// Enabled: the armed timer(s) with the earliest deadline may fire.
func (w *world) Enabled() []mc.EnvTransition {
	var first []*Timer
	for _, t := range w.timers {
		if !t.armed {
			continue
		}
		if len(first) == 0 || t.deadline < first[0].deadline {
			first = []*Timer{t}
		} else if t.deadline == first[0].deadline {
			first = append(first, t)
		}
	}
	var out []mc.EnvTransition
	for _, t := range first {
		t := t
		out = append(out, mc.EnvTransition{Desc: fmt.Sprintf("timer %s fires at +%v", t.name, t.deadline), Fire: func() {
			if t.deadline > w.now {
				w.now = t.deadline
			}
			t.armed = false
			t.C.TrySend(base.Add(w.now))
		}})
	}
	return out
}

func (w *world) Key() string {
	var ks []string
	for _, t := range w.timers {
		if t.armed {
			ks = append(ks, fmt.Sprintf("%s+%v", t.name, t.deadline-w.now))
		}
	}
	sort.Strings(ks)
	return fmt.Sprint("timers", ks)
}

// Armed lists the armed timers (name -> remaining duration) for harness oracles.
func Armed() map[string]Duration {
	w := getWorld()
	m := map[string]Duration{}
	if w == nil {
		return m
	}
	for _, t := range w.timers {
		if t.armed {
			m[t.name] = t.deadline - w.now
		}
	}
	return m
}
