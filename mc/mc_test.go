package verifmc

import (
	"fmt"
	"sort"
	"testing"
)

// two clients send requests to a server thread over a buffered channel and wait for the
// answer on their own unbuffered channel; all interleavings must terminate quiescent.
func TestServerClients(t *testing.T) {
	type req struct {
		v    int
		resp *Chan[int]
	}
	var results []string
	h := Harness{Name: "sc",
		Root: func() {
			results = nil
			rq := MakeChan[req](1)
			Go("server", func() {
				sum := 0
				for {
					r := rq.Recv("srv.recv")
					sum += r.v
					r.resp.Send("srv.send", sum)
				}
			})
			for i := 1; i <= 3; i++ {
				i := i
				GoClient(fmt.Sprint("c", i), func() {
					rc := MakeChan[int](0)
					rq.Send("c.send", req{i, rc})
					got := rc.Recv("c.recv")
					results = append(results, fmt.Sprintf("c%d=%d", i, got))
				})
			}
		},
		Observe: func(s *Sched, out Outcome) string { sort.Strings(results); return fmt.Sprint(out, results) },
		Final: func(s *Sched, out Outcome) []Viol {
			if out != Quiescent {
				return []Viol{{"bad-outcome", out.String()}}
			}
			return nil
		},
	}
	var full, pruned map[string]int
	for _, o := range []Options{{Bound: 0}, {Bound: 1}, {Bound: -1}, {Bound: -1, Prune: true}} {
		st := Explore(h, o)
		if o.Bound < 0 && !o.Prune {
			full = st.Terminal
		}
		if o.Prune {
			pruned = st.Terminal
		}
		t.Logf("bound=%d prune=%v: exec=%d trans=%d states=%d cuts=%d terminal=%d outcomes=%v", o.Bound, o.Prune, st.Executions, st.Transitions, st.States, st.Cuts, len(st.Terminal), st.Outcomes)
		if st.Violations != 0 {
			t.Fatal("violations")
		}
	}
	if len(full) != len(pruned) {
		t.Fatalf("pruned exploration reaches %d terminal observations, full %d", len(pruned), len(full))
	}
	for k := range full {
		if pruned[k] == 0 {
			t.Fatalf("pruned exploration misses %s", k)
		}
	}
}

// a thread that sends into its own full queue deadlocks; must be found.
func TestSelfDeadlock(t *testing.T) {
	h := Harness{Name: "dl",
		Root: func() {
			q := MakeChan[int](1)
			GoClient("w", func() {
				for {
					sel := NewSelect("w.sel", true)
					r := AddRecv(sel, q)
					if sel.Wait(false) == 0 {
						if r.Val() == 1 {
							q.Send("w.self", 2) // blocks if queue is full
						}
						if r.Val() == 3 {
							return
						}
					}
				}
			})
			GoClient("p", func() {
				q.Send("p1", 1)
				q.Send("p2", 3)
			})
		},
		Final: func(s *Sched, out Outcome) []Viol {
			if out == Deadlock {
				return []Viol{{"deadlock", fmt.Sprint(s.Blocked())}}
			}
			return nil
		},
	}
	found := 0
	st := Explore(h, Options{Bound: 2, Report: func(v Viol, ch []int, tr []string) { found++; t.Logf("found %s choices=%v\n%v", v.Key, ch, tr) }})
	t.Logf("exec=%d outcomes=%v", st.Executions, st.Outcomes)
	if found == 0 {
		t.Fatal("deadlock not found")
	}
}

// a select with a default branch never takes the default while one of its cases can complete:
// a value always fits into the buffered channel, whatever the receiver is doing.
func TestDefaultOnlyWhenNothingCompletes(t *testing.T) {
	var took []string
	h := Harness{Name: "default",
		Root: func() {
			took = nil
			q := MakeChan[int](2)
			Go("receiver", func() {
				for {
					q.Recv("r.recv")
				}
			})
			GoClient("sender", func() {
				for i := 0; i < 2; i++ {
					sel := NewSelect("s.select", false)
					AddSend(sel, q, i)
					if sel.Wait(true) == -1 {
						took = append(took, "default")
					} else {
						took = append(took, "sent")
					}
				}
			})
		},
		Observe: func(s *Sched, out Outcome) string { return fmt.Sprint(out, took) },
		Final: func(s *Sched, out Outcome) []Viol {
			for _, x := range took {
				if x == "default" {
					return []Viol{{"default-although-send-possible", fmt.Sprint(took)}}
				}
			}
			return nil
		},
	}
	for _, o := range []Options{{Bound: -1}, {Bound: -1, Prune: true}, {Bound: 2, AllCost: true, Order: 1}, {Bound: 2, AllCost: true, Order: 3}} {
		st := Explore(h, o)
		t.Logf("%+v: exec=%d terminal=%v", o, st.Executions, st.Terminal)
		if st.Violations != 0 {
			t.Fatal("the default branch of a select was taken although the send could complete")
		}
	}
}
