/* pamx — environment-model explorer for pam/pam_whawty.c (DESIGN.md 2.5).
 *
 * The unmodified module is compiled with ASan/UBSan against stub PAM headers and linked
 * with --wrap=socket,connect,select,read,write,send,close.  The wrappers implement a
 * simulated unix socket with virtual time; every environment answer is a choice point.
 * The driver enumerates, per case (user, password, options, server script), every
 * sequence of environment answers within a deviation bound (depth-first over choice
 * prefixes, choice 0 = cooperative answer) and judges each execution.
 *
 * Output: lines  V|<key>|<case description>|<choices>   and a final  STATS ... line.
 */
#define _GNU_SOURCE
#include <stdio.h>
#include <stdlib.h>
#include <string.h>
#include <stdarg.h>
#include <errno.h>
#include <setjmp.h>
#include <stdint.h>
#include <sys/types.h>
#include <sys/socket.h>
#include <sys/select.h>
#include <sys/un.h>
#include <unistd.h>
#include <security/pam_modules.h>
#include <security/pam_ext.h>

/* ---------------- case description ---------------- */
#define MAXREPLY 70000
typedef struct {
  const char *user;       /* NULL => pam_get_user fails */
  const char *password;   /* the password the user would type / has on the stack */
  int authtok_on_stack;   /* PAM_AUTHTOK present */
  int prompt_kind;        /* 0 string, 1 NULL, 2 error, 3 CONV_AGAIN */
  int argc;
  const char *argv[8];
  int flags;
  unsigned char reply[MAXREPLY];
  int reply_len;
  int cut;                /* number of reply bytes the server actually delivers */
  int end_close;          /* afterwards: 1 close, 0 stall */
  int init_errno;
  char desc[512];
} Case;

static Case C;

/* ---------------- execution state ---------------- */
#define MAXP 4096
static int prefix[MAXP], nprefix;
static int taken[MAXP], nalts[MAXP], npoints;
static long steps;
static long vtime;
static int timeout_cfg;
static unsigned char written[2 * 70000];
static int wlen;
static int rpos;
static int sigpipe_raised;
static int sock_fd_open;
static int prompted, set_item_called;
static sigjmp_buf bail;
static int budget_exceeded;
static int used_msg_nosignal;
static int blocked_forever;

static int choose(int n) {
  if (n <= 1) return 0;
  if (npoints >= MAXP) { budget_exceeded = 1; siglongjmp(bail, 1); }
  int c = npoints < nprefix ? prefix[npoints] : 0;
  if (c >= n) { fprintf(stderr, "pamx: replay divergence (choice %d of %d at point %d)\n", c, n, npoints); exit(2); }
  taken[npoints] = c; nalts[npoints] = n; npoints++;
  return c;
}

static int tracing;
#define TR(...) do { if (tracing) fprintf(stderr, __VA_ARGS__); } while (0)

static void step(void) {
  if (++steps > 6000) { budget_exceeded = 1; siglongjmp(bail, 1); }
}

/* ---------------- wrapped system calls ---------------- */
#define FAKE_FD 100
int __wrap_socket(int domain, int type, int protocol) {
  (void)domain; (void)type; (void)protocol;
  step();
  if (choose(2) == 1) { errno = EMFILE; return -1; }
  sock_fd_open = 1;
  return FAKE_FD;
}

int __wrap_connect(int fd, const struct sockaddr *addr, socklen_t len) {
  (void)addr; (void)len;
  step();
  if (fd != FAKE_FD) { errno = EBADF; return -1; }
  switch (choose(3)) {
    case 1: errno = ENOENT; return -1;
    case 2: errno = ECONNREFUSED; return -1;
  }
  return 0;
}

int __wrap_select(int nfds, fd_set *r, fd_set *w, fd_set *e, struct timeval *tv) {
  (void)nfds; (void)e;
  step();
  long t = tv ? tv->tv_sec : 0;
  if (tv && (tv->tv_sec < 0 || tv->tv_usec < 0 || tv->tv_usec >= 1000000)) { errno = EINVAL; return -1; } /* as the kernel does */
  TR("select(%s) rpos=%d cut=%d errno=%d\n", w ? "w" : "r", rpos, C.cut, errno);
  if (w) { /* writability */
    switch (choose(3)) {
      case 1: FD_ZERO(w); vtime += t; return 0;
      case 2: errno = EINTR; return -1;
    }
    return 1;
  }
  int avail = rpos < C.cut;
  int eof = (rpos >= C.cut) && C.end_close;
  if (avail || eof) {
    switch (choose(3)) {
      case 1: if (r) FD_ZERO(r); vtime += t; return 0; /* the server is slower than the timeout */
      case 2: errno = EINTR; return -1;
    }
    return 1;
  }
  /* the server stalls: nothing will ever arrive */
  if (choose(2) == 1) { errno = EINTR; return -1; }
  if (r) FD_ZERO(r);
  vtime += t;
  return 0;
}

static ssize_t do_write(const void *buf, size_t len, int nosignal) {
  step();
  if (len == 0) return 0;
  int n = len > 1 ? 4 : 3;
  int c = choose(n);
  if (len <= 1 && c >= 1) c++; /* skip the "one byte" alternative */
  switch (c) {
    case 1: len = 1; break;
    case 2: errno = EPIPE; if (!nosignal) sigpipe_raised = 1; return -1;
    case 3: errno = EINTR; return -1;
  }
  if (wlen + (int)len < (int)sizeof(written)) { memcpy(written + wlen, buf, len); }
  wlen += (int)len;
  return (ssize_t)len;
}

ssize_t __wrap_write(int fd, const void *buf, size_t len) {
  if (fd != FAKE_FD) { errno = EBADF; return -1; }
  return do_write(buf, len, 0);
}

ssize_t __wrap_send(int fd, const void *buf, size_t len, int flags) {
  if (fd != FAKE_FD) { errno = EBADF; return -1; }
  if (flags & MSG_NOSIGNAL) used_msg_nosignal = 1;
  return do_write(buf, len, (flags & MSG_NOSIGNAL) != 0);
}

ssize_t __wrap_read(int fd, void *buf, size_t len) {
  step();
  if (fd != FAKE_FD) { errno = EBADF; return -1; }
  if (len == 0) return 0;
  int avail = C.cut - rpos;
  TR("read(len=%zu) avail=%d errno=%d\n", len, avail, errno);
  if (avail > 0) {
    size_t n = (size_t)avail < len ? (size_t)avail : len;
    int alts = n > 1 ? 4 : 3;
    int c = choose(alts);
    if (n <= 1 && c >= 1) c++;
    switch (c) {
      case 1: n = 1; break;
      case 2: errno = ECONNRESET; return -1;
      case 3: errno = EINTR; return -1;
    }
    memcpy(buf, C.reply + rpos, n);
    rpos += (int)n;
    return (ssize_t)n;
  }
  if (C.end_close) {
    if (choose(2) == 1) { errno = ECONNRESET; return -1; }
    return 0; /* orderly shutdown by the peer */
  }
  /* the module's socket is a blocking one: a read while the peer stays silent never returns */
  blocked_forever = 1;
  siglongjmp(bail, 1);
}

ssize_t __wrap_recv(int fd, void *buf, size_t len, int flags) {
  if (fd == FAKE_FD && (flags & MSG_DONTWAIT) && C.cut - rpos <= 0 && !C.end_close) { step(); errno = EAGAIN; return -1; }
  if (fd == FAKE_FD && (flags & MSG_WAITALL) && len > 0 && (size_t)(C.cut - rpos) < len && !C.end_close) {
    /* MSG_WAITALL waits for the whole request; the peer delivers less and then stays silent */
    step();
    rpos = C.cut;
    blocked_forever = 1;
    siglongjmp(bail, 1);
  }
  return __wrap_read(fd, buf, len);
}

int __wrap_close(int fd) {
  if (fd == FAKE_FD) { sock_fd_open = 0; return 0; }
  return 0;
}

/* ---------------- PAM stubs ---------------- */
struct pam_handle { int dummy; };
static char logbuf[1 << 17];

int pam_get_user(pam_handle_t *pamh, const char **user, const char *prompt) {
  (void)pamh; (void)prompt;
  if (!C.user) return PAM_CONV_ERR;
  *user = C.user;
  return PAM_SUCCESS;
}

int pam_get_item(const pam_handle_t *pamh, int item_type, const void **item) {
  (void)pamh;
  if (item_type == PAM_AUTHTOK) { *item = C.authtok_on_stack ? C.password : NULL; return PAM_SUCCESS; }
  *item = NULL;
  return PAM_SUCCESS;
}

int pam_set_item(pam_handle_t *pamh, int item_type, const void *item) {
  (void)pamh; (void)item;
  if (item_type == PAM_AUTHTOK) set_item_called++;
  return PAM_SUCCESS;
}

const char *pam_strerror(pam_handle_t *pamh, int errnum) { (void)pamh; (void)errnum; return "pam error"; }

void pam_vsyslog(const pam_handle_t *pamh, int priority, const char *fmt, va_list args) {
  (void)pamh; (void)priority;
  int e = errno;
  vsnprintf(logbuf, sizeof(logbuf), fmt, args);
  errno = e;
}

int pam_prompt(pam_handle_t *pamh, int style, char **response, const char *fmt, ...) {
  (void)pamh; (void)style; (void)fmt;
  prompted++;
  switch (C.prompt_kind) {
    case 1: *response = NULL; return PAM_SUCCESS;
    case 2: return PAM_CONV_ERR;
    case 3: return PAM_CONV_AGAIN;
  }
  *response = strdup(C.password);
  return PAM_SUCCESS;
}

/* ---------------- oracle ---------------- */
static long n_exec, n_viol, n_success, n_cases;
static unsigned long outcome_mask[64];

static void report(const char *key, const char *detail) {
  n_viol++;
  char d[600];
  snprintf(d, sizeof d, "%s", C.desc);
  for (char *q = d; *q; q++) if (*q == '\n' || *q == '|' || *q == '\r') *q = '~';
  printf("V|%s|%s :: %s|", key, d, detail);
  int last = 0;
  for (int i = 0; i < npoints; i++) if (taken[i]) last = i + 1;
  for (int i = 0; i < last; i++) printf("%s%d", i ? "," : "", taken[i]);
  printf("\n");
}

static int has_opt(const char *o) {
  for (int i = 0; i < C.argc; i++) if (!strcmp(C.argv[i], o)) return 1;
  return 0;
}

static int put_part(unsigned char *out, const char *s) {
  size_t l = strlen(s);
  if (l > 256) l = 256;
  out[0] = (unsigned char)(l >> 8); out[1] = (unsigned char)(l & 0xff);
  memcpy(out + 2, s, l);
  return (int)l + 2;
}

static int run_once(void) {
  static pam_handle_t h;
  npoints = 0; steps = 0; vtime = 0; wlen = 0; rpos = 0; sigpipe_raised = 0; sock_fd_open = 0;
  prompted = 0; set_item_called = 0; budget_exceeded = 0; blocked_forever = 0;
  int ret = -12345;
  errno = C.init_errno;
  if (sigsetjmp(bail, 0) == 0) {
    ret = pam_sm_authenticate(&h, C.flags, C.argc, C.argv);
  }
  n_exec++;
  int deviations = 0;
  for (int i = 0; i < npoints; i++) if (taken[i]) deviations++;
  if (blocked_forever) {
    report("blocks-forever", "the module sits in a blocking read()/recv() on its socket while the agent stays silent: no select() timeout covers the wait, the call never returns");
    return ret;
  }
  if (budget_exceeded) {
    report("no-return-within-step-budget", "the module did not return within 6000 environment calls (livelock)");
    return ret;
  }
  /* was a password available? */
  int use_first = has_opt("use_first_pass"), try_first = has_opt("try_first_pass");
  int have_pw = 0;
  if (C.user) {
    if ((use_first || try_first) && C.authtok_on_stack) have_pw = 1;
    else if (!use_first && C.prompt_kind == 0) have_pw = 1;
  }
  unsigned char ref[600];
  int reflen = 0;
  if (have_pw) {
    reflen += put_part(ref + reflen, C.user);
    reflen += put_part(ref + reflen, C.password);
    reflen += put_part(ref + reflen, "");
    reflen += put_part(ref + reflen, "");
  }
  if (!have_pw && wlen > 0) report("request-sent-without-password", "bytes were written although no password could be obtained");
  if (!have_pw && ret == PAM_SUCCESS) report("success-without-password", "PAM_SUCCESS although no password could be obtained");
  if (have_pw) {
    if (wlen > reflen || memcmp(written, ref, (size_t)(wlen < reflen ? wlen : reflen)) != 0) {
      char d[200];
      snprintf(d, sizeof d, "the %d bytes written are not a prefix of the reference encoding (%d bytes) of (user[:256], password[:256], \"\", \"\")", wlen, reflen);
      report("malformed-request", d);
    }
  }
  int L = -1, Lc = -1;
  if (C.reply_len >= 2) { L = (C.reply[0] << 8) | C.reply[1]; Lc = L > 256 ? 256 : L; }
  if (ret == PAM_SUCCESS) {
    n_success++;
    int ok = have_pw && wlen == reflen && rpos >= 2 && Lc >= 2 && rpos >= 2 + Lc && C.reply[2] == 'O' && C.reply[3] == 'K';
    if (!ok) {
      char d[300];
      snprintf(d, sizeof d, "PAM_SUCCESS although the agent's reply was not an explicit OK: request bytes written %d/%d, reply bytes consumed %d, announced length %d, body starts %02x %02x", wlen, reflen, rpos, L,
               C.reply_len > 2 ? C.reply[2] : 0, C.reply_len > 3 ? C.reply[3] : 0);
      report("success-without-explicit-ok", d);
    }
  }
  if (sigpipe_raised) report("killed-by-sigpipe", "write() on a socket closed by the peer raises SIGPIPE in the host application (no MSG_NOSIGNAL)");
  /* bounded time: every wait is limited by the timeout, at most one wait per byte */
  long limit = (long)(2 + 258 + 600) * (timeout_cfg > 0 ? timeout_cfg : 3) + 10;
  if (timeout_cfg != 2147483647 && vtime > limit) { char d[100]; snprintf(d, sizeof d, "virtual time %ld s exceeds the bound %ld s", vtime, limit); report("unbounded-time", d); }
  /* completeness: a cooperative environment and a full, well-formed reply give the exact verdict */
  if (deviations == 0 && have_pw && Lc >= 0 && C.cut >= 2 + Lc) {
    int want_ok = Lc >= 2 && C.reply[2] == 'O' && C.reply[3] == 'K';
    if (want_ok && ret != PAM_SUCCESS) report("explicit-ok-refused", "cooperative run with a complete OK reply did not return PAM_SUCCESS");
    if (!want_ok && ret != PAM_AUTH_ERR && ret != PAM_AUTHINFO_UNAVAIL) report("negative-reply-code", "negative reply did not map to PAM_AUTH_ERR/AUTHINFO_UNAVAIL");
  }
  if (ret == -12345) report("no-return", "module did not return");
  if (sock_fd_open) report("socket-leak", "the socket is still open when the module returns");
  int slot = (ret & 63);
  outcome_mask[slot] |= 1UL << (deviations > 7 ? 7 : deviations);
  return ret;
}

/* depth-first exploration of environment answers within a deviation bound */
static int bound = 2, bound_override = -1;
typedef struct { int len; int cost; int *c; } Frame;
static Frame *stack; static int sp, scap;

static void push(const int *c, int len, int cost) {
  if (sp == scap) { scap = scap ? scap * 2 : 1024; stack = realloc(stack, sizeof(Frame) * (size_t)scap); }
  stack[sp].c = malloc(sizeof(int) * (size_t)(len ? len : 1));
  if (len) memcpy(stack[sp].c, c, sizeof(int) * (size_t)len);
  stack[sp].len = len; stack[sp].cost = cost; sp++;
}

static int replay_prefix[MAXP], replay_n = -1;

static int base_bound = 2;

static void explore_case(void) {
  n_cases++;
  sp = 0;
  bound = base_bound;
  if (C.reply_len > 16 || (C.user && strlen(C.user) > 300) || (C.password && strlen(C.password) > 300)) bound = base_bound - 1;
  if (bound_override >= 0) bound = bound_override;
  if (replay_n >= 0) push(replay_prefix, replay_n, 1 << 20);
  else push(NULL, 0, 0);
  while (sp > 0) {
    Frame f = stack[--sp];
    if (f.len) memcpy(prefix, f.c, sizeof(int) * (size_t)f.len);
    nprefix = f.len;
    free(f.c);
    run_once();
    int mytaken[MAXP], mynalts[MAXP], np = npoints;
    memcpy(mytaken, taken, sizeof(int) * (size_t)np);
    memcpy(mynalts, nalts, sizeof(int) * (size_t)np);
    if (f.cost + 1 > bound) continue;
    for (int i = f.len; i < np; i++) {
      for (int a = 1; a < mynalts[i]; a++) {
        int tmp[MAXP];
        memcpy(tmp, mytaken, sizeof(int) * (size_t)i);
        tmp[i] = a;
        push(tmp, i + 1, f.cost + 1);
      }
    }
  }
}

/* ---------------- case enumeration ---------------- */
static char *mkstr(int len, char ch) {
  char *s = malloc((size_t)len + 1);
  memset(s, ch, (size_t)len);
  s[len] = 0;
  return s;
}

static void set_reply(const unsigned char *body, int blen, int announced) {
  C.reply[0] = (unsigned char)(announced >> 8); C.reply[1] = (unsigned char)(announced & 0xff);
  memcpy(C.reply + 2, body, (size_t)blen);
  C.reply_len = 2 + blen;
}

static long case_id, shard_i, shard_n = 1, only_case = -1;
static int listing;
static int take_case(void) {
  long id = case_id++;
  if (listing) { printf("CASE %s\n", C.desc); return 0; }
  if (only_case >= 0) return id == only_case;
  return id % shard_n == shard_i;
}

static void enumerate(int thorough) {
  int lens[] = {0, 1, 255, 256, 257, 5000};
  const char *bodies[] = {"OK", "NO", "OK x", "O", "ok", " OK", "OKAY", "NO OK", "KO", "OK\n", "NOK", ""};
  int nb = (int)(sizeof bodies / sizeof bodies[0]);
  /* A. server scripts: announced length x body x cut x end behaviour; plain options */
  C.user = "bob"; C.password = "secret"; C.authtok_on_stack = 0; C.prompt_kind = 0; C.argc = 1; C.argv[0] = "timeout=2"; C.flags = 0; C.init_errno = 0;
  timeout_cfg = 2;
  for (int bi = 0; bi < nb + 4; bi++) {
    unsigned char body[700];
    int blen;
    if (bi < nb) { blen = (int)strlen(bodies[bi]); memcpy(body, bodies[bi], (size_t)blen); }
    else if (bi == nb) { blen = 256; memset(body, 'O', 256); body[1] = 'K'; }
    else if (bi == nb + 1) { blen = 600; memset(body, 'x', 600); body[0] = 'O'; body[1] = 'K'; }
    else if (bi == nb + 2) { /* a refusal that carries "OK" wherever a chunked reader might look next */
      blen = 600; memset(body, 'x', 600); body[0] = 'N'; body[1] = 'O';
      body[254] = 'O'; body[255] = 'K'; body[256] = 'O'; body[257] = 'K'; body[258] = 'O'; body[259] = 'K'; body[512] = 'O'; body[513] = 'K'; body[598] = 'O'; body[599] = 'K'; }
    else { blen = 258; memset(body, 'x', 258); body[0] = 'N'; body[1] = 'O'; body[256] = 'O'; body[257] = 'K'; }
    int anns[] = {0, 1, 2, 3, 4, 255, 256, 257, 65535, -1 /* = exact */};
    for (unsigned ai = 0; ai < sizeof anns / sizeof anns[0]; ai++) {
      int ann = anns[ai] < 0 ? blen : anns[ai];
      set_reply(body, blen, ann);
      for (int cut = 0; cut <= C.reply_len; cut++) {
        if (C.reply_len > 12 && cut > 6 && cut < C.reply_len - 3 && cut != 257 && cut != 258 && cut != 259 && !thorough) continue;
        for (int endc = 0; endc < 2; endc++) {
          for (int ie = 0; ie < 2; ie++) {
            C.cut = cut; C.end_close = endc; C.init_errno = ie ? EINTR : 0;
            snprintf(C.desc, sizeof C.desc, "case %ld: user=bob pw=secret opts=[timeout=2] reply: announced length %d, body %d bytes \"%.12s\", server delivers %d of %d bytes then %s, errno on entry %s",
                     case_id, ann, blen, bi < nb ? bodies[bi] : (bi <= nb + 1 ? "OK+filler" : "NO+filler with OK at 254/256/258/512/end"), cut, C.reply_len, endc ? "closes" : "stalls", ie ? "EINTR" : "0");
            if (take_case()) explore_case();
          }
        }
      }
    }
  }
  /* B. users / passwords of every boundary length, every option subset, AUTHTOK, prompt answers */
  const char *opts[] = {"debug", "try_first_pass", "use_first_pass", "not_set_pass"};
  unsigned char okbody[2] = {'O', 'K'};
  for (int ui = 0; ui < 6; ui++) for (int pi = 0; pi < 6; pi++) {
    char *u = mkstr(lens[ui], 'u'), *p = mkstr(lens[pi], 'p');
    for (int mask = 0; mask < 16; mask++) {
      if (!thorough && ui > 1 && pi > 1 && mask != 0 && mask != 2 && mask != 4 && mask != 15) continue;
      for (int at = 0; at < 2; at++) for (int pk = 0; pk < 4; pk++) for (int verdict = 0; verdict < 2; verdict++) {
        C.user = u; C.password = p; C.authtok_on_stack = at; C.prompt_kind = pk; C.flags = (mask & 8) ? (int)PAM_SILENT : 0; C.init_errno = 0;
        C.argc = 0;
        for (int b = 0; b < 4; b++) if (mask & (1 << b)) C.argv[C.argc++] = opts[b];
        C.argv[C.argc++] = "sock=/run/x.sock";
        timeout_cfg = 3;
        okbody[0] = verdict ? 'O' : 'N'; okbody[1] = verdict ? 'K' : 'O';
        set_reply(okbody, 2, 2);
        C.cut = C.reply_len; C.end_close = 1;
        snprintf(C.desc, sizeof C.desc, "case %ld: user %d bytes, password %d bytes, option mask %d, AUTHTOK on stack=%d, prompt answer kind %d, server replies %s", case_id, lens[ui], lens[pi], mask, at, pk, verdict ? "OK" : "NO");
        if (take_case()) explore_case();
      }
    }
    free(u); free(p);
  }
  /* C. option parsing: sock= / timeout= variants, unknown options, no user */
  const char *optsets[][4] = {
    {"sock=", NULL}, {"sock=/a", "sock=/b", NULL}, {"timeout=", NULL}, {"timeout=0", NULL}, {"timeout=-1", NULL}, {"timeout=x", NULL}, {"timeout=1", "timeout=5", NULL},
    {"timeout=2147483647", NULL}, {"unknown", "sock", NULL}, {"debug", "timeout=99999999999", NULL}, {"timeout=-3", NULL}, {"timeout=4294967295", NULL}, {"timeout=2147483648", NULL}, {"timeout=1x", NULL}, {"timeout= 7", NULL}, {NULL}};
  for (unsigned oi = 0; oi < sizeof optsets / sizeof optsets[0]; oi++) for (int nouser = 0; nouser < 2; nouser++) for (int endc = 0; endc < 2; endc++) {
    C.user = nouser ? NULL : "bob"; C.password = "secret"; C.authtok_on_stack = 0; C.prompt_kind = 0; C.flags = 0; C.init_errno = 0;
    C.argc = 0;
    for (int k = 0; k < 4 && optsets[oi][k]; k++) C.argv[C.argc++] = optsets[oi][k];
    timeout_cfg = 3;
    if (oi == 6) timeout_cfg = 5;
    if (oi == 7) timeout_cfg = 2147483647;
    if (oi == 14) timeout_cfg = 7; /* atoi skips the blank */
    okbody[0] = 'O'; okbody[1] = 'K';
    set_reply(okbody, 2, 2);
    C.cut = endc ? C.reply_len : 1; C.end_close = endc;
    snprintf(C.desc, sizeof C.desc, "case %ld: option set %u, user %s, server %s", case_id, oi, nouser ? "unavailable" : "bob", endc ? "replies OK" : "sends 1 byte and stalls");
    if (oi == 7 || oi == 9) timeout_cfg = 2147483647; /* whatever atoi makes of it: no time bound to check */
    if (take_case()) explore_case();
  }
}

/* ---------------- vector modes (binding to the Go encoder / Go server replies) ---------------- */
static int read_u32(FILE *f, unsigned *v) { unsigned char b[4]; if (fread(b, 1, 4, f) != 4) return 0; *v = (unsigned)b[0] << 24 | (unsigned)b[1] << 16 | (unsigned)b[2] << 8 | b[3]; return 1; }

static void vectors_mode(const char *path) {
  /* records: ulen user plen pw elen expected-request-bytes */
  FILE *f = fopen(path, "rb");
  if (!f) { perror(path); exit(2); }
  unsigned ul, pl, el;
  long n = 0;
  while (read_u32(f, &ul)) {
    char *u = malloc(ul + 1); fread(u, 1, ul, f); u[ul] = 0;
    read_u32(f, &pl); char *p = malloc(pl + 1); fread(p, 1, pl, f); p[pl] = 0;
    read_u32(f, &el); unsigned char *e = malloc(el + 1); fread(e, 1, el, f);
    C.user = u; C.password = p; C.authtok_on_stack = 0; C.prompt_kind = 0; C.argc = 0; C.flags = 0; C.init_errno = 0;
    unsigned char ok[2] = {'O', 'K'}; set_reply(ok, 2, 2); C.cut = 4; C.end_close = 1; timeout_cfg = 3;
    snprintf(C.desc, sizeof C.desc, "vector %ld: user %u bytes, password %u bytes", n, ul, pl);
    nprefix = 0;
    int ret = run_once();
    if ((unsigned)wlen != el || memcmp(written, e, el) != 0) report("c-encoder-differs-from-go-encoder", "bytes written by the PAM module differ from sasl.Request.Marshal() of the clipped fields");
    if (ret != PAM_SUCCESS) report("vector-not-accepted", "cooperative OK reply not accepted");
    free(u); free(p); free(e); n++;
  }
  fclose(f);
  printf("STATS mode=vectors cases=%ld executions=%ld violations=%ld\n", n, n_exec, n_viol);
}

static void replies_mode(const char *path) {
  /* records: verdict(1 byte) rlen reply-bytes  — replies emitted by the real Go server */
  FILE *f = fopen(path, "rb");
  if (!f) { perror(path); exit(2); }
  long n = 0;
  int v;
  while ((v = fgetc(f)) != EOF) {
    unsigned rl; read_u32(f, &rl);
    if (rl > MAXREPLY) { fprintf(stderr, "reply too long for the harness\n"); exit(2); }
    fread(C.reply, 1, rl, f); C.reply_len = (int)rl; C.cut = (int)rl; C.end_close = 1;
    C.user = "bob"; C.password = "secret"; C.authtok_on_stack = 0; C.prompt_kind = 0; C.argc = 0; C.flags = 0; C.init_errno = 0; timeout_cfg = 3;
    snprintf(C.desc, sizeof C.desc, "server reply %ld: %u bytes, callback verdict %d", n, rl, v);
    nprefix = 0;
    int ret = run_once();
    if ((ret == PAM_SUCCESS) != (v == 1)) report("go-server-reply-misread-by-pam-module", v ? "a positive reply of the Go server is not accepted by the PAM module" : "a negative reply of the Go server is accepted by the PAM module");
    n++;
  }
  fclose(f);
  printf("STATS mode=replies cases=%ld executions=%ld violations=%ld\n", n, n_exec, n_viol);
}

int main(int argc, char **argv) {
  int thorough = 0;
  const char *replay = NULL;
  for (int i = 1; i < argc; i++) {
    if (!strcmp(argv[i], "--thorough")) thorough = 1;
    else if (!strcmp(argv[i], "--bound")) base_bound = atoi(argv[++i]);
    else if (!strcmp(argv[i], "--shard")) { shard_i = atol(argv[++i]); shard_n = atol(argv[++i]); }
    else if (!strcmp(argv[i], "--vectors")) { vectors_mode(argv[++i]); return 0; }
    else if (!strcmp(argv[i], "--replies")) { replies_mode(argv[++i]); return 0; }
    else if (!strcmp(argv[i], "--case")) only_case = atol(argv[++i]);
    else if (!strcmp(argv[i], "--trace")) tracing = 1;
    else if (!strcmp(argv[i], "--list")) { /* handled in take_case */ listing = 1; }
    else if (!strcmp(argv[i], "--replay")) replay = argv[++i];
  }
  if (replay) {
    /* --case N --replay c0,c1,... : run exactly one execution */
    int n = 0;
    char *s = strdup(replay);
    for (char *t = strtok(s, ","); t; t = strtok(NULL, ",")) replay_prefix[n++] = atoi(t);
    replay_n = n; /* explore_case runs exactly this prefix (cost beyond every bound) */
  }
  enumerate(thorough);
  printf("STATS mode=explore cases=%ld executions=%ld success=%ld violations=%ld bound=%d outcomes=", n_cases, n_exec, n_success, n_viol, bound);
  for (int i = 0; i < 64; i++) if (outcome_mask[i]) printf("%d:%lx,", i, outcome_mask[i]);
  printf("\n");
  return 0;
}
