#!/usr/bin/env python3
"""Regenerates /verif/MANIFEST.json from pylib/registry.py (single source of truth)."""
import json, os, sys
VERIF = os.path.dirname(os.path.dirname(os.path.abspath(__file__)))
sys.path.insert(0, os.path.join(VERIF, 'pylib'))
import registry

ids = [json.loads(l)['id'] for l in open(os.path.join(VERIF, 'properties.jsonl'))]
checks = []
na = []
for pid in ids:
    spec = registry.CHECKS.get(pid)
    if spec is None or spec.get('disabled'):
        na.append({'property_id': pid, 'reason': registry.NOT_CLAIMED.get(pid, 'check not built yet (work in progress; see DESIGN.md section 4 for the planned exhaustive exploration)')})
        continue
    checks.append({
        'property_id': pid,
        'quick_cmd': './check %s quick' % pid,
        'thorough_cmd': './check %s thorough' % pid,
        'evidence_file': 'evidence/%s.json' % pid,
        'replay_cmd_template': './check %s quick --replay {path}' % pid,
        'engine': spec.get('engine', ''),
        'level_claimed': {'category': spec['level'], 'text': spec['text'], 'design_ref': spec.get('design_ref', 'DESIGN.md section 4 ' + pid)},
        'level_note': spec['note'],
        'technique': spec['technique'],
    })
m = {
    'version': 1,
    'setup_cmd': './setup.sh',
    'hooks': {
        'guard': 'verif',
        'enable': 'no source hooks: harnesses enter through `go build -overlay` (virtual packages internal/verif*, added _test.go files, mcrewrite-generated copies of cmd/whawty-auth and sasl); /repo is never modified by a check',
        'baseline_off_cmd': "cd /repo && GOPROXY=off GOSUMDB=off GOTOOLCHAIN=local go test -vet=off -count=1 ./...",
        'source_commits': [],
        'add_only': True,
    },
    'engines': registry.ENGINES,
    'checks': checks,
    'not_applicable': na,
    'notes': 'All checks are bounded exhaustive explorations (model checking family); see DESIGN.md. Known findings: known_findings.txt.',
}
json.dump(m, open(os.path.join(VERIF, 'MANIFEST.json'), 'w'), indent=1)
print('checks:', len(checks), 'not_applicable:', len(na))
