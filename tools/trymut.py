#!/usr/bin/env python3
"""trymut.py <props,comma> <repo-relative file> <old> <new> [--thorough]
Applies a textual mutation to /repo, checks that the repo still builds and passes its own
tests, runs the given checks, and ALWAYS reverts /repo (git checkout)."""
import sys, subprocess, os
props, f, old, new = sys.argv[1], sys.argv[2], sys.argv[3], sys.argv[4]
tier = 'thorough' if '--thorough' in sys.argv else 'quick'
p = os.path.join('/repo', f)
s = open(p).read()
if s.count(old) != 1:
    print('pattern occurs %d times' % s.count(old)); sys.exit(2)
env = dict(os.environ, GOPROXY='off', GOSUMDB='off', GOTOOLCHAIN='local')
try:
    open(p, 'w').write(s.replace(old, new))
    r = subprocess.run('go build ./... && go test -vet=off -count=1 ./... 2>&1 | grep -v "no test files"', shell=True, cwd='/repo', env=env, capture_output=True, text=True)
    print('baseline:', 'PASS' if r.returncode == 0 and 'FAIL' not in r.stdout else 'FAIL\n' + r.stdout[-1500:] + r.stderr[-1500:])
    for pid in props.split(','):
        r = subprocess.run(['./check', pid, tier], cwd='/verif', capture_output=True, text=True)
        v = [l for l in r.stdout.splitlines() if l.startswith('VIOLATION') or l.startswith('TOOL-ERROR') or l.startswith('  key=')]
        print('%s exit=%d %s' % (pid, r.returncode, 'CAUGHT' if r.returncode == 1 else ('TOOL-ERROR' if r.returncode == 2 else 'MISSED')))
        for l in v[:6]:
            print('   ', l[:260])
        if r.returncode == 2:
            print(r.stdout[-1500:])
finally:
    subprocess.run(['git', 'checkout', '--', '.'], cwd='/repo')
