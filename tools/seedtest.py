#!/usr/bin/env python3
"""seedtest.py <ID> [--thorough] [--props C01,C02]
Evaluates the seeded change in /tmp/seed-<ID>/ (or /verif/seeded/<name>/):
 1. fresh scratch worktree of /repo HEAD: apply patch, build, run the repo's own suite (must pass)
 2. apply to /repo, run ./check <prop> quick (and thorough if asked / missed), ALWAYS revert
 3. copy patch.diff + demo + meta.json to /verif/seeded/<ID>/ (results recorded in meta.json)
"""
import sys, os, subprocess, json, shutil, glob, time
sid = sys.argv[1]
src = '/tmp/seed-' + sid if os.path.isdir('/tmp/seed-' + sid) else '/verif/seeded/' + sid
for i, a in enumerate(sys.argv):
    if a == '--src':
        src = sys.argv[i + 1]
props = [sid[:3]]
for i, a in enumerate(sys.argv):
    if a == '--props':
        props = sys.argv[i + 1].split(',')
thorough = '--thorough' in sys.argv
env = dict(os.environ, GOPROXY='off', GOSUMDB='off', GOTOOLCHAIN='local')
patch = os.path.join(src, 'patch.diff')
wt = '/tmp/seedwt-' + sid
subprocess.run(['git', '-C', '/repo', 'worktree', 'remove', '--force', wt], capture_output=True)
subprocess.run(['git', '-C', '/repo', 'worktree', 'add', '-q', '--detach', wt, 'HEAD'], check=True)
meta = {'seed': sid, 'properties': props, 'ran': []}
try:
    r = subprocess.run(['git', '-C', wt, 'apply', patch], capture_output=True, text=True)
    if r.returncode != 0:
        print('PATCH DOES NOT APPLY:', r.stderr); sys.exit(2)
    r = subprocess.run('go build ./... && go test -vet=off -count=1 ./... 2>&1 | grep -v "no test files"', shell=True, cwd=wt, env=env, capture_output=True, text=True)
    base_ok = r.returncode == 0 and 'FAIL' not in r.stdout
    print('baseline suite with patch:', 'PASS' if base_ok else 'FAIL\n' + r.stdout[-800:] + r.stderr[-800:])
    meta['baseline_suite_passes_with_patch'] = base_ok
finally:
    subprocess.run(['git', '-C', '/repo', 'worktree', 'remove', '--force', wt], capture_output=True)
try:
    subprocess.run(['git', '-C', '/repo', 'apply', patch], check=True)
    for pid in props:
        for tier in (['quick'] + (['thorough'] if thorough else [])):
            t = time.time()
            r = subprocess.run(['./check', pid, tier], cwd='/verif', capture_output=True, text=True)
            keys = [l.strip() for l in r.stdout.splitlines() if l.startswith('  key=')]
            verdict = {0: 'MISSED', 1: 'CAUGHT', 2: 'TOOL-ERROR'}.get(r.returncode, str(r.returncode))
            print('%s %s: %s (%.0fs)' % (pid, tier, verdict, time.time() - t))
            for k in keys[:4]:
                print('    ', k[:300])
            if r.returncode == 2:
                print(r.stdout[-1500:])
            meta['ran'].append({'check': './check %s %s' % (pid, tier), 'verdict': verdict, 'violation_keys': [k.split(' :: ')[0][4:] for k in keys][:8]})
            if verdict == 'CAUGHT':
                break
finally:
    subprocess.run(['git', '-C', '/repo', 'checkout', '--', '.'])
    subprocess.run(['git', '-C', '/repo', 'clean', '-fdq'])
dst = '/verif/seeded/' + sid
if src != dst:
    os.makedirs(dst, exist_ok=True)
    for f in glob.glob(src + '/*'):
        if os.path.basename(f) in ('PROPERTY.txt',):
            continue
        if os.path.isdir(f):
            shutil.copytree(f, os.path.join(dst, os.path.basename(f)), dirs_exist_ok=True)
        else:
            shutil.copy(f, dst)
mp = os.path.join(dst, 'meta.json')
old = json.load(open(mp)) if os.path.exists(mp) else {}
old.update(meta)
json.dump(old, open(mp, 'w'), indent=1)
