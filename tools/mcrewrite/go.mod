module mcrewrite

go 1.23
