// Copyright 2017 The Go Authors. All rights reserved.
// Use of this source code is governed by a BSD-style
// license that can be found in the LICENSE file.

package main

import (
	"fmt"
	"go/ast"
	"reflect"
	"sort"
)

// An ApplyFunc is invoked by Apply for each node n, even if n is nil,
// before and/or after the node's children, using a Cursor describing
// the current node and providing operations on it.
//
// The return value of ApplyFunc controls the syntax tree traversal.
// See Apply for details.
type ApplyFunc func(*Cursor) bool

// Apply traverses a syntax tree recursively, starting with root,
// and calling pre and post for each node as described below.
// Apply returns the syntax tree, possibly modified.
//
// If pre is not nil, it is called for each node before the node's
// children are traversed (pre-order). If pre returns false, no
// children are traversed, and post is not called for that node.
//
// If post is not nil, and a prior call of pre didn't return false,
// post is called for each node after its children are traversed
// (post-order). If post returns false, traversal is terminated and
// Apply returns immediately.
//
// Only fields that refer to AST nodes are considered children;
// i.e., token.Pos, Scopes, Objects, and fields of basic types
// (strings, etc.) are ignored.
//
// Children are traversed in the order in which they appear in the
// respective node's struct definition. A package's files are
// traversed in the filenames' alphabetical order.
func Apply(root ast.Node, pre, post ApplyFunc) (result ast.Node) {
	parent := &struct{ ast.Node }{root}
	defer func() {
		if r := recover(); r != nil && r != abort {
			panic(r)
		}
		result = parent.Node
	}()
	a := &application{pre: pre, post: post}
	a.apply(parent, "Node", nil, root)
	return
}

var abort = new(int) // singleton, to signal termination of Apply

// A Cursor describes a node encountered during Apply.
// Information about the node and its parent is available
// from the Node, Parent, Name, and Index methods.
//
// If p is a variable of type and value of the current parent node
// c.Parent(), and f is the field identifier with name c.Name(),
// the following invariants hold:
//
//	p.f            == c.Node()  if c.Index() <  0
//	p.f[c.Index()] == c.Node()  if c.Index() >= 0
//
// The methods Replace, Delete, InsertBefore, and InsertAfter
// can be used to change the AST without disrupting Apply.
type Cursor struct {
	parent ast.Node
	name   string
	iter   *iterator // valid if non-nil
	node   ast.Node
}

// Node returns the current Node.
func (c *Cursor) Node() ast.Node { return c.node }

// Parent returns the parent of the current Node.
func (c *Cursor) Parent() ast.Node { return c.parent }

// Name returns the name of the parent Node field that contains the current Node.
// If the parent is a *ast.Package and the current Node is a *ast.File, Name returns
// the filename for the current Node.
func (c *Cursor) Name() string { return c.name }

// Index reports the index >= 0 of the current Node in the slice of Nodes that
// contains it, or a value < 0 if the current Node is not part of a slice.
// The index of the current node changes if InsertBefore is called while
// processing the current node.
func (c *Cursor) Index() int {
	if c.iter != nil {
		return c.iter.index
	}
	return -1
}

// field returns the current node's parent field value.
func (c *Cursor) field() reflect.Value {
	return reflect.Indirect(reflect.ValueOf(c.parent)).FieldByName(c.name)
}

// Replace replaces the current Node with n.
// The replacement node is not walked by Apply.
func (c *Cursor) Replace(n ast.Node) {
	if _, ok := c.node.(*ast.File); ok {
		file, ok := n.(*ast.File)
		if !ok {
			panic("attempt to replace *ast.File with non-*ast.File")
		}
		c.parent.(*ast.Package).Files[c.name] = file
		return
	}

	v := c.field()
	if i := c.Index(); i >= 0 {
		v = v.Index(i)
	}
	v.Set(reflect.ValueOf(n))
}

// Delete deletes the current Node from its containing slice.
// If the current Node is not part of a slice, Delete panics.
// As a special case, if the current node is a package file,
// Delete removes it from the package's Files map.
func (c *Cursor) Delete() {
	if _, ok := c.node.(*ast.File); ok {
		delete(c.parent.(*ast.Package).Files, c.name)
		return
	}

	i := c.Index()
	if i < 0 {
		panic("Delete node not contained in slice")
	}
	v := c.field()
	l := v.Len()
	reflect.Copy(v.Slice(i, l), v.Slice(i+1, l))
	v.Index(l - 1).Set(reflect.Zero(v.Type().Elem()))
	v.SetLen(l - 1)
	c.iter.step--
}

// InsertAfter inserts n after the current Node in its containing slice.
// If the current Node is not part of a slice, InsertAfter panics.
// Apply does not walk n.
func (c *Cursor) InsertAfter(n ast.Node) {
	i := c.Index()
	if i < 0 {
		panic("InsertAfter node not contained in slice")
	}
	v := c.field()
	v.Set(reflect.Append(v, reflect.Zero(v.Type().Elem())))
	l := v.Len()
	reflect.Copy(v.Slice(i+2, l), v.Slice(i+1, l))
	v.Index(i + 1).Set(reflect.ValueOf(n))
	c.iter.step++
}

// InsertBefore inserts n before the current Node in its containing slice.
// If the current Node is not part of a slice, InsertBefore panics.
// Apply will not walk n.
func (c *Cursor) InsertBefore(n ast.Node) {
	i := c.Index()
	if i < 0 {
		panic("InsertBefore node not contained in slice")
	}
	v := c.field()
	v.Set(reflect.Append(v, reflect.Zero(v.Type().Elem())))
	l := v.Len()
	reflect.Copy(v.Slice(i+1, l), v.Slice(i, l))
	v.Index(i).Set(reflect.ValueOf(n))
	c.iter.index++
}

// application carries all the shared data so we can pass it around cheaply.
type application struct {
	pre, post ApplyFunc
	cursor    Cursor
	iter      iterator
}

func (a *application) apply(parent ast.Node, name string, iter *iterator, n ast.Node) {
	// convert typed nil into untyped nil
	if v := reflect.ValueOf(n); v.Kind() == reflect.Ptr && v.IsNil() {
		n = nil
	}

	// avoid heap-allocating a new cursor for each apply call; reuse a.cursor instead
	saved := a.cursor
	a.cursor.parent = parent
	a.cursor.name = name
	a.cursor.iter = iter
	a.cursor.node = n

	if a.pre != nil && !a.pre(&a.cursor) {
		a.cursor = saved
		return
	}

	// walk children
	// (the order of the cases matches the order of the corresponding node types in go/ast)
	switch n := n.(type) {
	case nil:
		// nothing to do

	// Comments and fields
	case *ast.Comment:
		// nothing to do

	case *ast.CommentGroup:
		if n != nil {
			a.applyList(n, "List")
		}

	case *ast.Field:
		a.apply(n, "Doc", nil, n.Doc)
		a.applyList(n, "Names")
		a.apply(n, "Type", nil, n.Type)
		a.apply(n, "Tag", nil, n.Tag)
		a.apply(n, "Comment", nil, n.Comment)

	case *ast.FieldList:
		a.applyList(n, "List")

	// Expressions
	case *ast.BadExpr, *ast.Ident, *ast.BasicLit:
		// nothing to do

	case *ast.Ellipsis:
		a.apply(n, "Elt", nil, n.Elt)

	case *ast.FuncLit:
		a.apply(n, "Type", nil, n.Type)
		a.apply(n, "Body", nil, n.Body)

	case *ast.CompositeLit:
		a.apply(n, "Type", nil, n.Type)
		a.applyList(n, "Elts")

	case *ast.ParenExpr:
		a.apply(n, "X", nil, n.X)

	case *ast.SelectorExpr:
		a.apply(n, "X", nil, n.X)
		a.apply(n, "Sel", nil, n.Sel)

	case *ast.IndexExpr:
		a.apply(n, "X", nil, n.X)
		a.apply(n, "Index", nil, n.Index)

	case *ast.IndexListExpr:
		a.apply(n, "X", nil, n.X)
		a.applyList(n, "Indices")

	case *ast.SliceExpr:
		a.apply(n, "X", nil, n.X)
		a.apply(n, "Low", nil, n.Low)
		a.apply(n, "High", nil, n.High)
		a.apply(n, "Max", nil, n.Max)

	case *ast.TypeAssertExpr:
		a.apply(n, "X", nil, n.X)
		a.apply(n, "Type", nil, n.Type)

	case *ast.CallExpr:
		a.apply(n, "Fun", nil, n.Fun)
		a.applyList(n, "Args")

	case *ast.StarExpr:
		a.apply(n, "X", nil, n.X)

	case *ast.UnaryExpr:
		a.apply(n, "X", nil, n.X)

	case *ast.BinaryExpr:
		a.apply(n, "X", nil, n.X)
		a.apply(n, "Y", nil, n.Y)

	case *ast.KeyValueExpr:
		a.apply(n, "Key", nil, n.Key)
		a.apply(n, "Value", nil, n.Value)

	// Types
	case *ast.ArrayType:
		a.apply(n, "Len", nil, n.Len)
		a.apply(n, "Elt", nil, n.Elt)

	case *ast.StructType:
		a.apply(n, "Fields", nil, n.Fields)

	case *ast.FuncType:
		if tparams := n.TypeParams; tparams != nil {
			a.apply(n, "TypeParams", nil, tparams)
		}
		a.apply(n, "Params", nil, n.Params)
		a.apply(n, "Results", nil, n.Results)

	case *ast.InterfaceType:
		a.apply(n, "Methods", nil, n.Methods)

	case *ast.MapType:
		a.apply(n, "Key", nil, n.Key)
		a.apply(n, "Value", nil, n.Value)

	case *ast.ChanType:
		a.apply(n, "Value", nil, n.Value)

	// Statements
	case *ast.BadStmt:
		// nothing to do

	case *ast.DeclStmt:
		a.apply(n, "Decl", nil, n.Decl)

	case *ast.EmptyStmt:
		// nothing to do

	case *ast.LabeledStmt:
		a.apply(n, "Label", nil, n.Label)
		a.apply(n, "Stmt", nil, n.Stmt)

	case *ast.ExprStmt:
		a.apply(n, "X", nil, n.X)

	case *ast.SendStmt:
		a.apply(n, "Chan", nil, n.Chan)
		a.apply(n, "Value", nil, n.Value)

	case *ast.IncDecStmt:
		a.apply(n, "X", nil, n.X)

	case *ast.AssignStmt:
		a.applyList(n, "Lhs")
		a.applyList(n, "Rhs")

	case *ast.GoStmt:
		a.apply(n, "Call", nil, n.Call)

	case *ast.DeferStmt:
		a.apply(n, "Call", nil, n.Call)

	case *ast.ReturnStmt:
		a.applyList(n, "Results")

	case *ast.BranchStmt:
		a.apply(n, "Label", nil, n.Label)

	case *ast.BlockStmt:
		a.applyList(n, "List")

	case *ast.IfStmt:
		a.apply(n, "Init", nil, n.Init)
		a.apply(n, "Cond", nil, n.Cond)
		a.apply(n, "Body", nil, n.Body)
		a.apply(n, "Else", nil, n.Else)

	case *ast.CaseClause:
		a.applyList(n, "List")
		a.applyList(n, "Body")

	case *ast.SwitchStmt:
		a.apply(n, "Init", nil, n.Init)
		a.apply(n, "Tag", nil, n.Tag)
		a.apply(n, "Body", nil, n.Body)

	case *ast.TypeSwitchStmt:
		a.apply(n, "Init", nil, n.Init)
		a.apply(n, "Assign", nil, n.Assign)
		a.apply(n, "Body", nil, n.Body)

	case *ast.CommClause:
		a.apply(n, "Comm", nil, n.Comm)
		a.applyList(n, "Body")

	case *ast.SelectStmt:
		a.apply(n, "Body", nil, n.Body)

	case *ast.ForStmt:
		a.apply(n, "Init", nil, n.Init)
		a.apply(n, "Cond", nil, n.Cond)
		a.apply(n, "Post", nil, n.Post)
		a.apply(n, "Body", nil, n.Body)

	case *ast.RangeStmt:
		a.apply(n, "Key", nil, n.Key)
		a.apply(n, "Value", nil, n.Value)
		a.apply(n, "X", nil, n.X)
		a.apply(n, "Body", nil, n.Body)

	// Declarations
	case *ast.ImportSpec:
		a.apply(n, "Doc", nil, n.Doc)
		a.apply(n, "Name", nil, n.Name)
		a.apply(n, "Path", nil, n.Path)
		a.apply(n, "Comment", nil, n.Comment)

	case *ast.ValueSpec:
		a.apply(n, "Doc", nil, n.Doc)
		a.applyList(n, "Names")
		a.apply(n, "Type", nil, n.Type)
		a.applyList(n, "Values")
		a.apply(n, "Comment", nil, n.Comment)

	case *ast.TypeSpec:
		a.apply(n, "Doc", nil, n.Doc)
		a.apply(n, "Name", nil, n.Name)
		if tparams := n.TypeParams; tparams != nil {
			a.apply(n, "TypeParams", nil, tparams)
		}
		a.apply(n, "Type", nil, n.Type)
		a.apply(n, "Comment", nil, n.Comment)

	case *ast.BadDecl:
		// nothing to do

	case *ast.GenDecl:
		a.apply(n, "Doc", nil, n.Doc)
		a.applyList(n, "Specs")

	case *ast.FuncDecl:
		a.apply(n, "Doc", nil, n.Doc)
		a.apply(n, "Recv", nil, n.Recv)
		a.apply(n, "Name", nil, n.Name)
		a.apply(n, "Type", nil, n.Type)
		a.apply(n, "Body", nil, n.Body)

	// Files and packages
	case *ast.File:
		a.apply(n, "Doc", nil, n.Doc)
		a.apply(n, "Name", nil, n.Name)
		a.applyList(n, "Decls")
		// Don't walk n.Comments; they have either been walked already if
		// they are Doc comments, or they can be easily walked explicitly.

	case *ast.Package:
		// collect and sort names for reproducible behavior
		var names []string
		for name := range n.Files {
			names = append(names, name)
		}
		sort.Strings(names)
		for _, name := range names {
			a.apply(n, name, nil, n.Files[name])
		}

	default:
		panic(fmt.Sprintf("Apply: unexpected node type %T", n))
	}

	if a.post != nil && !a.post(&a.cursor) {
		panic(abort)
	}

	a.cursor = saved
}

// An iterator controls iteration over a slice of nodes.
type iterator struct {
	index, step int
}

func (a *application) applyList(parent ast.Node, name string) {
	// avoid heap-allocating a new iterator for each applyList call; reuse a.iter instead
	saved := a.iter
	a.iter.index = 0
	for {
		// must reload parent.name each time, since cursor modifications might change it
		v := reflect.Indirect(reflect.ValueOf(parent)).FieldByName(name)
		if a.iter.index >= v.Len() {
			break
		}

		// element x may be nil in a bad AST - be cautious
		var x ast.Node
		if e := v.Index(a.iter.index); e.IsValid() {
			x = e.Interface().(ast.Node)
		}

		a.iter.step = 1
		a.apply(parent, name, &a.iter, x)
		a.iter.index += a.iter.step
	}
	a.iter = saved
}
