// mcrewrite: source-to-source rewriter binding the controlled scheduler /verif/mc to the
// real source of a package (DESIGN.md 2.2).  It reads the CURRENT files of a package
// directory, rewrites every channel type / make / send / receive / select / range-over-
// channel / close / len / cap / go statement into calls of verifmc, optionally swaps
// imports (time, os/signal, os/exec, net/http) for the modelled versions, and writes the
// result to an output directory together with a JSON map original -> rewritten file.
// Anything it does not understand is a hard error (exit 2).
package main

import (
	"encoding/json"
	"flag"
	"fmt"
	"go/ast"
	"go/importer"
	"go/parser"
	"go/printer"
	"go/token"
	"go/types"
	"os"
	"path/filepath"
	"sort"
	"strconv"
	"strings"
)

const mcPath = "github.com/whawty/auth/internal/verifmc"

type config struct {
	// Imports: file base name (or "*") -> original import path -> replacement import path
	Imports map[string]map[string]string `json:"imports"`
	// NoTypes: skip type checking (range/len/cap over channels then must not occur)
	NoTypes bool `json:"notypes"`
	// OnlyImports: no channel rewriting at all, just the import swaps (sequential harnesses
	// that only need the virtual clock); files without a swapped import are left alone
	OnlyImports bool `json:"only_imports"`
	// FileOps: no channel rewriting; insert verifmc.FileOp(site) before every statement that
	// performs a file-system operation (package store)
	FileOps bool `json:"fileops"`
}

func die(format string, a ...any) {
	fmt.Fprintf(os.Stderr, "mcrewrite: "+format+"\n", a...)
	os.Exit(2)
}

type commInfo struct {
	send bool
	ch   ast.Expr
	val  ast.Expr
	two  bool // v, ok form
}

type rewriter struct {
	fset    *token.FileSet
	info    *types.Info
	file    string
	gen     map[ast.Node]*commInfo
	chanLen map[*ast.CallExpr]string // len/cap calls over channels
	rangeCh map[*ast.RangeStmt]bool
	homeSel map[ast.Stmt]bool
	usedMc  bool
	nsel    int
}

func main() {
	dir := flag.String("dir", "", "package directory to rewrite")
	out := flag.String("out", "", "output directory")
	cfgPath := flag.String("config", "", "json config")
	flag.Parse()
	if *dir == "" || *out == "" {
		die("usage: mcrewrite -dir <pkgdir> -out <outdir> [-config cfg.json]")
	}
	cfg := config{Imports: map[string]map[string]string{}}
	if *cfgPath != "" {
		b, err := os.ReadFile(*cfgPath)
		if err != nil {
			die("%v", err)
		}
		if err := json.Unmarshal(b, &cfg); err != nil {
			die("config: %v", err)
		}
	}
	fset := token.NewFileSet()
	ents, err := os.ReadDir(*dir)
	if err != nil {
		die("%v", err)
	}
	var files []*ast.File
	var names []string
	for _, e := range ents {
		n := e.Name()
		if !strings.HasSuffix(n, ".go") || strings.HasSuffix(n, "_test.go") {
			continue
		}
		src, err := os.ReadFile(filepath.Join(*dir, n))
		if err != nil {
			die("%v", err)
		}
		// honour build constraints in the crudest possible way: skip files that opt out
		if strings.Contains(string(src), "//go:build ignore") || strings.Contains(string(src), "// +build ignore") || strings.Contains(string(src), "//go:build gofuzz") || strings.Contains(string(src), "// +build gofuzz") {
			continue
		}
		f, err := parser.ParseFile(fset, filepath.Join(*dir, n), src, parser.ParseComments)
		if err != nil {
			die("parse %s: %v", n, err)
		}
		files = append(files, f)
		names = append(names, n)
	}
	if len(files) == 0 {
		die("no go files in %s", *dir)
	}
	info := &types.Info{Types: map[ast.Expr]types.TypeAndValue{}, Uses: map[*ast.Ident]types.Object{}, Defs: map[*ast.Ident]types.Object{}}
	if !cfg.NoTypes && !cfg.OnlyImports && !cfg.FileOps {
		conf := types.Config{Importer: importer.ForCompiler(fset, "source", nil), Error: func(err error) {}}
		// errors are tolerated here (the compiler is the judge of the rewritten code); we
		// only need the types of range / len / cap operands.
		conf.Check(files[0].Name.Name, fset, files, info) //nolint:errcheck
	}
	if err := os.MkdirAll(*out, 0755); err != nil {
		die("%v", err)
	}
	mapping := map[string]string{}
	for i, f := range files {
		rw := &rewriter{fset: fset, info: info, file: names[i], gen: map[ast.Node]*commInfo{}, chanLen: map[*ast.CallExpr]string{}, rangeCh: map[*ast.RangeStmt]bool{}, homeSel: map[ast.Stmt]bool{}}
		for _, cg := range f.Comments {
			for _, c := range cg.List {
				if strings.HasPrefix(c.Text, "//go:") && !strings.HasPrefix(c.Text, "//go:build") {
					die("%s: directive %q is not supported by the rewriter", names[i], c.Text)
				}
			}
		}
		if cfg.FileOps {
			f.Comments = nil
			hooked := rw.insertFileOps(f)
			swapped := rw.swapImports(f, cfg)
			if !hooked && !swapped {
				continue
			}
		} else if cfg.OnlyImports {
			if !rw.swapImports(f, cfg) {
				continue
			}
		} else {
			f.Comments = nil
			rw.rewriteFile(f, cfg, !cfg.NoTypes)
		}
		outp := filepath.Join(*out, names[i])
		w, err := os.Create(outp)
		if err != nil {
			die("%v", err)
		}
		if err := printer.Fprint(w, token.NewFileSet(), f); err != nil {
			die("print %s: %v", names[i], err)
		}
		w.Close()
		mapping[filepath.Join(*dir, names[i])] = outp
	}
	b, _ := json.MarshalIndent(mapping, "", " ")
	fmt.Println(string(b))
}

func (rw *rewriter) site(n ast.Node) ast.Expr {
	p := rw.fset.Position(n.Pos())
	return &ast.BasicLit{Kind: token.STRING, Value: strconv.Quote(fmt.Sprintf("%s:%d", rw.file, p.Line))}
}

func mcSel(name string) ast.Expr {
	return &ast.SelectorExpr{X: ast.NewIdent("verifmc"), Sel: ast.NewIdent(name)}
}

func call(fun ast.Expr, args ...ast.Expr) *ast.CallExpr {
	return &ast.CallExpr{Fun: fun, Args: args}
}

func method(recv ast.Expr, name string, args ...ast.Expr) *ast.CallExpr {
	return call(&ast.SelectorExpr{X: paren(recv), Sel: ast.NewIdent(name)}, args...)
}

func paren(e ast.Expr) ast.Expr {
	switch e.(type) {
	case *ast.Ident, *ast.SelectorExpr, *ast.CallExpr, *ast.IndexExpr, *ast.ParenExpr:
		return e
	}
	return &ast.ParenExpr{X: e}
}

func (rw *rewriter) isChan(e ast.Expr) bool {
	tv, ok := rw.info.Types[e]
	if !ok || tv.Type == nil {
		return false
	}
	_, is := tv.Type.Underlying().(*types.Chan)
	return is
}

func (rw *rewriter) rewriteFile(f *ast.File, cfg config, typed bool) {
	// pass 1 (pre-order facts that need the original nodes)
	ast.Inspect(f, func(n ast.Node) bool {
		switch x := n.(type) {
		case *ast.CallExpr:
			if id, ok := x.Fun.(*ast.Ident); ok && (id.Name == "len" || id.Name == "cap") && len(x.Args) == 1 {
				if rw.isChan(x.Args[0]) {
					rw.chanLen[x] = map[string]string{"len": "Len", "cap": "Cap"}[id.Name]
				}
			}
		case *ast.RangeStmt:
			if rw.isChan(x.X) {
				rw.rangeCh[x] = true
			} else if !typed {
				die("%s: range statement but type checking disabled", rw.file)
			} else if tv, ok := rw.info.Types[x.X]; !ok || tv.Type == nil {
				die("%s:%d: cannot determine the type of the range operand", rw.file, rw.fset.Position(x.Pos()).Line)
			}
		case *ast.LabeledStmt:
			if _, ok := x.Stmt.(*ast.SelectStmt); ok {
				die("%s:%d: labeled select is not supported", rw.file, rw.fset.Position(x.Pos()).Line)
			}
		case *ast.ForStmt:
			if x.Init == nil && x.Cond == nil && x.Post == nil && len(x.Body.List) > 0 {
				if sel, ok := x.Body.List[0].(*ast.SelectStmt); ok && rw.loopIsStateless(x.Body) {
					rw.homeSel[sel] = true
				}
			}
		}
		return true
	})
	for r := range rw.rangeCh {
		if rw.loopIsStateless(r.Body) {
			rw.homeSel[r] = true
		}
	}
	// pass 2: post-order rewriting
	Apply(f, nil, func(c *Cursor) bool {
		switch x := c.Node().(type) {
		case *ast.ChanType:
			rw.usedMc = true
			c.Replace(&ast.StarExpr{X: &ast.IndexExpr{X: mcSel("Chan"), Index: x.Value}})
		case *ast.SendStmt:
			rw.usedMc = true
			ce := method(x.Chan, "Send", rw.site(x), x.Value)
			rw.gen[ce] = &commInfo{send: true, ch: x.Chan, val: x.Value}
			c.Replace(&ast.ExprStmt{X: ce})
		case *ast.UnaryExpr:
			if x.Op == token.ARROW {
				rw.usedMc = true
				ce := method(x.X, "Recv", rw.site(x))
				rw.gen[ce] = &commInfo{ch: x.X}
				c.Replace(ce)
			}
		case *ast.AssignStmt:
			if len(x.Lhs) == 2 && len(x.Rhs) == 1 {
				if ce, ok := x.Rhs[0].(*ast.CallExpr); ok {
					if ci := rw.gen[ce]; ci != nil && !ci.send {
						ce.Fun.(*ast.SelectorExpr).Sel = ast.NewIdent("Recv2")
						ci.two = true
					}
				}
			}
		case *ast.ValueSpec:
			if len(x.Names) == 2 && len(x.Values) == 1 {
				if ce, ok := x.Values[0].(*ast.CallExpr); ok {
					if ci := rw.gen[ce]; ci != nil && !ci.send {
						ce.Fun.(*ast.SelectorExpr).Sel = ast.NewIdent("Recv2")
						ci.two = true
					}
				}
			}
		case *ast.CallExpr:
			if id, ok := x.Fun.(*ast.Ident); ok {
				switch {
				case id.Name == "make" && len(x.Args) >= 1:
					if st, ok := x.Args[0].(*ast.StarExpr); ok {
						if ix, ok := st.X.(*ast.IndexExpr); ok {
							if se, ok := ix.X.(*ast.SelectorExpr); ok && se.Sel.Name == "Chan" {
								if xi, ok := se.X.(*ast.Ident); ok && xi.Name == "verifmc" {
									var n ast.Expr = &ast.BasicLit{Kind: token.INT, Value: "0"}
									if len(x.Args) > 1 {
										n = x.Args[1]
									}
									c.Replace(call(&ast.IndexExpr{X: mcSel("MakeChan"), Index: ix.Index}, call(mcSel("ScaleCap"), n)))
								}
							}
						}
					}
				case id.Name == "close" && len(x.Args) == 1:
					rw.usedMc = true
					c.Replace(method(x.Args[0], "Close", rw.site(x)))
				case rw.chanLen[x] != "":
					c.Replace(method(x.Args[0], rw.chanLen[x]))
				}
			}
		case *ast.RangeStmt:
			if rw.rangeCh[x] {
				c.Replace(rw.rewriteRange(x))
			}
		case *ast.GoStmt:
			rw.usedMc = true
			c.Replace(rw.rewriteGo(x))
		case *ast.SelectStmt:
			rw.usedMc = true
			c.Replace(rw.rewriteSelect(x))
		}
		return true
	})
	rw.swapImports(f, cfg)
	if rw.usedMc {
		imp := &ast.GenDecl{Tok: token.IMPORT, Specs: []ast.Spec{&ast.ImportSpec{Name: ast.NewIdent("verifmc"), Path: &ast.BasicLit{Kind: token.STRING, Value: strconv.Quote(mcPath)}}}}
		f.Decls = append([]ast.Decl{imp}, f.Decls...)
	}
}

// ---- fileops mode ------------------------------------------------------------------------

var fileMethods = map[string]bool{"Sync": true, "ReadString": true, "WriteTo": true, "Readdirnames": true, "ReadDir": true, "Readdir": true,
	"Stat": true, "Write": true, "WriteString": true, "Read": true, "Truncate": true, "Chmod": true}

// touchesFiles: does the statement itself (not nested blocks) contain a file-system call?
func touchesFiles(n ast.Node) bool {
	found := false
	ast.Inspect(n, func(x ast.Node) bool {
		if found {
			return false
		}
		switch y := x.(type) {
		case *ast.BlockStmt, *ast.FuncLit:
			return x == n // nested statement lists get their own hooks
		case *ast.CallExpr:
			if se, ok := y.Fun.(*ast.SelectorExpr); ok {
				if id, ok := se.X.(*ast.Ident); ok && (id.Name == "os" || id.Name == "ioutil") {
					found = true
				} else if id, ok := se.X.(*ast.Ident); ok && id.Name == "io" && (se.Sel.Name == "WriteString" || se.Sel.Name == "Copy" || se.Sel.Name == "ReadAll") {
					found = true
				} else if fileMethods[se.Sel.Name] {
					found = true
				}
			}
		}
		return true
	})
	return found
}

func (rw *rewriter) insertFileOps(f *ast.File) bool {
	changed := false
	hook := func(n ast.Node) ast.Stmt {
		return &ast.ExprStmt{X: call(mcSel("FileOp"), rw.site(n))}
	}
	var fix func(list []ast.Stmt) []ast.Stmt
	fix = func(list []ast.Stmt) []ast.Stmt {
		var out []ast.Stmt
		for _, st := range list {
			// statement headers (if/for/switch init and condition) belong to the statement
			header := st
			switch x := st.(type) {
			case *ast.IfStmt:
				header = &ast.IfStmt{Init: x.Init, Cond: x.Cond, Body: &ast.BlockStmt{}}
			case *ast.ForStmt:
				header = &ast.ForStmt{Init: x.Init, Cond: x.Cond, Post: x.Post, Body: &ast.BlockStmt{}}
			case *ast.RangeStmt:
				header = &ast.RangeStmt{Key: x.Key, Value: x.Value, X: x.X, Tok: x.Tok, Body: &ast.BlockStmt{}}
			case *ast.SwitchStmt:
				header = &ast.SwitchStmt{Init: x.Init, Tag: x.Tag, Body: &ast.BlockStmt{}}
			case *ast.BlockStmt, *ast.LabeledStmt, *ast.SelectStmt, *ast.TypeSwitchStmt:
				header = &ast.EmptyStmt{}
			}
			if touchesFiles(header) {
				out = append(out, hook(st))
				changed = true
			}
			out = append(out, st)
		}
		return out
	}
	ast.Inspect(f, func(n ast.Node) bool {
		switch x := n.(type) {
		case *ast.BlockStmt:
			x.List = fix(x.List)
		case *ast.CaseClause:
			x.Body = fix(x.Body)
		case *ast.CommClause:
			x.Body = fix(x.Body)
		}
		return true
	})
	if changed {
		imp := &ast.GenDecl{Tok: token.IMPORT, Specs: []ast.Spec{&ast.ImportSpec{Name: ast.NewIdent("verifmc"), Path: &ast.BasicLit{Kind: token.STRING, Value: strconv.Quote(mcPath)}}}}
		f.Decls = append([]ast.Decl{imp}, f.Decls...)
	}
	return changed
}

func (rw *rewriter) swapImports(f *ast.File, cfg config) bool {
	changed := false
	repl := map[string]string{}
	for k, v := range cfg.Imports["*"] {
		repl[k] = v
	}
	for k, v := range cfg.Imports[rw.file] {
		repl[k] = v
	}
	for _, d := range f.Decls {
		gd, ok := d.(*ast.GenDecl)
		if !ok || gd.Tok != token.IMPORT {
			continue
		}
		for _, s := range gd.Specs {
			is := s.(*ast.ImportSpec)
			p, _ := strconv.Unquote(is.Path.Value)
			if np, ok := repl[p]; ok && np != "" {
				if is.Name == nil {
					is.Name = ast.NewIdent(filepath.Base(p))
				}
				is.Path.Value = strconv.Quote(np)
				changed = true
			}
		}
	}
	return changed
}

// loopIsStateless: no statement of the loop body assigns to a plain identifier declared
// outside the body (then the loop head may be a history-reset point for state keys).
func (rw *rewriter) loopIsStateless(body *ast.BlockStmt) bool {
	ok := true
	check := func(e ast.Expr) {
		id, is := e.(*ast.Ident)
		if !is || id.Name == "_" {
			return
		}
		obj := rw.info.Uses[id]
		if obj == nil {
			obj = rw.info.Defs[id]
		}
		if obj == nil {
			ok = false // unknown: be conservative
			return
		}
		if obj.Pos() < body.Pos() || obj.Pos() > body.End() {
			ok = false
		}
	}
	ast.Inspect(body, func(n ast.Node) bool {
		switch x := n.(type) {
		case *ast.AssignStmt:
			if x.Tok != token.DEFINE {
				for _, l := range x.Lhs {
					check(l)
				}
			}
		case *ast.IncDecStmt:
			check(x.X)
		case *ast.UnaryExpr:
			if x.Op == token.AND { // address taken of an outer variable
				check(x.X)
			}
		}
		return true
	})
	return ok
}

func (rw *rewriter) rewriteRange(x *ast.RangeStmt) ast.Stmt {
	rw.usedMc = true
	fn := "Recv2"
	if rw.homeSel[x] {
		fn = "RecvHome"
	}
	okID := ast.NewIdent("_mcok")
	var lhs0 ast.Expr = ast.NewIdent("_")
	tok := token.DEFINE
	if x.Key != nil {
		lhs0 = x.Key
		if x.Tok == token.ASSIGN {
			// v = range: declare ok separately
			tok = token.ASSIGN
		}
	}
	var stmts []ast.Stmt
	if tok == token.ASSIGN {
		stmts = append(stmts, &ast.DeclStmt{Decl: &ast.GenDecl{Tok: token.VAR, Specs: []ast.Spec{&ast.ValueSpec{Names: []*ast.Ident{okID}, Type: ast.NewIdent("bool")}}}})
	}
	stmts = append(stmts,
		&ast.AssignStmt{Lhs: []ast.Expr{lhs0, okID}, Tok: tok, Rhs: []ast.Expr{method(x.X, fn, rw.site(x))}},
		&ast.IfStmt{Cond: &ast.UnaryExpr{Op: token.NOT, X: okID}, Body: &ast.BlockStmt{List: []ast.Stmt{&ast.BranchStmt{Tok: token.BREAK}}}})
	stmts = append(stmts, x.Body.List...)
	return &ast.ForStmt{Body: &ast.BlockStmt{List: stmts}}
}

func (rw *rewriter) rewriteGo(x *ast.GoStmt) ast.Stmt {
	var pre []ast.Stmt
	ce := x.Call
	var args []ast.Expr
	for i, a := range ce.Args {
		id := ast.NewIdent(fmt.Sprintf("_mca%d", i))
		pre = append(pre, &ast.AssignStmt{Lhs: []ast.Expr{id}, Tok: token.DEFINE, Rhs: []ast.Expr{a}})
		args = append(args, id)
	}
	fun := ce.Fun
	if _, isLit := fun.(*ast.FuncLit); !isLit {
		id := ast.NewIdent("_mcf")
		pre = append(pre, &ast.AssignStmt{Lhs: []ast.Expr{id}, Tok: token.DEFINE, Rhs: []ast.Expr{fun}})
		fun = id
	}
	inner := &ast.CallExpr{Fun: fun, Args: args, Ellipsis: ce.Ellipsis}
	if ce.Ellipsis.IsValid() {
		inner.Ellipsis = 1
	}
	body := &ast.FuncLit{Type: &ast.FuncType{Params: &ast.FieldList{}}, Body: &ast.BlockStmt{List: []ast.Stmt{&ast.ExprStmt{X: inner}}}}
	pre = append(pre, &ast.ExprStmt{X: call(mcSel("Go"), rw.site(x), body)})
	return &ast.BlockStmt{List: pre}
}

func (rw *rewriter) rewriteSelect(x *ast.SelectStmt) ast.Stmt {
	rw.nsel++
	selID := ast.NewIdent(fmt.Sprintf("_mcsel%d", rw.nsel))
	home := "false"
	if rw.homeSel[x] {
		home = "true"
	}
	stmts := []ast.Stmt{&ast.AssignStmt{Lhs: []ast.Expr{selID}, Tok: token.DEFINE, Rhs: []ast.Expr{call(mcSel("NewSelect"), rw.site(x), ast.NewIdent(home))}}}
	sw := &ast.SwitchStmt{Body: &ast.BlockStmt{}}
	hasDefault := "false"
	idx := 0
	for _, cl := range x.Body.List {
		cc := cl.(*ast.CommClause)
		if cc.Comm == nil {
			hasDefault = "true"
			sw.Body.List = append(sw.Body.List, &ast.CaseClause{List: []ast.Expr{&ast.UnaryExpr{Op: token.SUB, X: &ast.BasicLit{Kind: token.INT, Value: "1"}}}, Body: cc.Body})
			continue
		}
		var body []ast.Stmt
		lit := &ast.BasicLit{Kind: token.INT, Value: strconv.Itoa(idx)}
		switch cm := cc.Comm.(type) {
		case *ast.ExprStmt:
			ce, _ := cm.X.(*ast.CallExpr)
			ci := rw.gen[ce]
			if ci == nil {
				die("%s: unsupported select case", rw.file)
			}
			if ci.send {
				stmts = append(stmts, &ast.ExprStmt{X: call(mcSel("AddSend"), selID, ci.ch, ci.val)})
			} else {
				stmts = append(stmts, &ast.AssignStmt{Lhs: []ast.Expr{ast.NewIdent("_")}, Tok: token.ASSIGN, Rhs: []ast.Expr{call(mcSel("AddRecv"), selID, ci.ch)}})
			}
		case *ast.AssignStmt:
			ce, _ := cm.Rhs[0].(*ast.CallExpr)
			ci := rw.gen[ce]
			if ci == nil || ci.send {
				die("%s: unsupported select receive case", rw.file)
			}
			rid := ast.NewIdent(fmt.Sprintf("_mcr%d_%d", rw.nsel, idx))
			stmts = append(stmts, &ast.AssignStmt{Lhs: []ast.Expr{rid}, Tok: token.DEFINE, Rhs: []ast.Expr{call(mcSel("AddRecv"), selID, ci.ch)}})
			rhs := []ast.Expr{method(rid, "Val")}
			if len(cm.Lhs) == 2 {
				rhs = append(rhs, method(rid, "Ok"))
			}
			body = append(body, &ast.AssignStmt{Lhs: cm.Lhs, Tok: cm.Tok, Rhs: rhs})
			if cm.Tok == token.DEFINE {
				// avoid "declared and not used" when the body ignores the value
				for _, l := range cm.Lhs {
					if id, ok := l.(*ast.Ident); ok && id.Name != "_" {
						body = append(body, &ast.AssignStmt{Lhs: []ast.Expr{ast.NewIdent("_")}, Tok: token.ASSIGN, Rhs: []ast.Expr{ast.NewIdent(id.Name)}})
					}
				}
			}
		default:
			die("%s: unsupported select communication %T", rw.file, cc.Comm)
		}
		body = append(body, cc.Body...)
		sw.Body.List = append(sw.Body.List, &ast.CaseClause{List: []ast.Expr{lit}, Body: body})
		idx++
	}
	sw.Tag = method(selID, "Wait", ast.NewIdent(hasDefault))
	// a select whose clauses all terminate is itself terminating; the switch is only with a default
	sw.Body.List = append(sw.Body.List, &ast.CaseClause{Body: []ast.Stmt{&ast.ExprStmt{X: call(ast.NewIdent("panic"), &ast.BasicLit{Kind: token.STRING, Value: `"verifmc: impossible select index"`})}}})
	stmts = append(stmts, sw)
	return &ast.BlockStmt{List: stmts}
}

var _ = sort.Strings
