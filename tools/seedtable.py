#!/usr/bin/env python3
"""Regenerates the seeded-change table of DESIGN.md section 12 from seeded/*/meta.json."""
import json, glob, os, re
V = os.path.dirname(os.path.dirname(os.path.abspath(__file__)))
rows = []
for mp in sorted(glob.glob(os.path.join(V, 'seeded', '*', 'meta.json'))):
    m = json.load(open(mp))
    ran = m.get('ran') or [{}]
    last = ran[-1]
    keys = ', '.join(last.get('violation_keys', [])[:2])
    verdict = last.get('verdict', '?')
    tier = 'thorough' if 'thorough' in last.get('check', '') else 'quick'
    cell = '%s%s%s' % (verdict, '' if tier == 'quick' else ' (thorough)', (': ' + keys) if keys else '')
    demo = (m.get('demonstration') or {}).get('confirmed')
    rows.append('| %s | %s (%s)%s | %s |' % (m['seed'], m.get('change', '?'), m.get('needs_to_manifest', '?'), '' if demo else ' [demonstration not confirmed]', cell.replace('|', '/')))
p = os.path.join(V, 'DESIGN.md')
s = open(p).read().split('\n')
i = next(k for k, l in enumerate(s) if l.startswith('| seed | change'))
j = i + 2
while j < len(s) and s[j].startswith('|'):
    j += 1
s[i + 2:j] = rows
open(p, 'w').write('\n'.join(s))
print(len(rows), 'rows')
