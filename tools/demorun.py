#!/usr/bin/env python3
"""demorun.py <seed-id>: confirms the demonstration of a seeded change in a scratch worktree:
it must FAIL with the patch and PASS without it.  Records the result in meta.json."""
import sys, os, re, subprocess, json, shutil, glob
sid = sys.argv[1]
d = '/verif/seeded/' + sid
env = dict(os.environ, GOPROXY='off', GOSUMDB='off', GOTOOLCHAIN='local')
wt = '/tmp/demowt-' + sid
subprocess.run(['git', '-C', '/repo', 'worktree', 'remove', '--force', wt], capture_output=True)
subprocess.run(['git', '-C', '/repo', 'worktree', 'add', '-q', '--detach', wt, 'HEAD'], check=True)
res = {}
try:
    demos = [f for f in glob.glob(d + '/*_test.go')]
    if demos:
        demo = demos[0]
        txt = open(demo).read()
        m = re.search(r'package directory\s+(\S+?)/?\s', txt) or re.search(r'[Cc]opy (?:this file|it) (?:in)?to\s+[`\']?(\S+?)/?[`\']?[\s,]', txt) or re.search(r'goes in [`\']?(\S+?)/[`\']?', txt)
        pkg = m.group(1).strip('`\'"') if m else None
        pm = re.search(r'^package (\w+)', txt, re.M)
        if not pkg or not os.path.isdir(os.path.join(wt, pkg)):
            pkg = {'main': 'cmd/whawty-auth', 'store': 'store', 'sasl': 'sasl'}.get(pm.group(1), 'store')
        rm = re.search(r"-run\s+'?([\w^$|.*]+)'?", txt)
        pat = rm.group(1) if rm else 'Test'
        tags = ['-tags', 'seeddemo'] if 'seeddemo' in txt else []
        shutil.copy(demo, os.path.join(wt, pkg))
        cmd = ['go', 'test'] + tags + ['-vet=off', '-count=1', '-run', pat, './' + pkg + '/']
        for phase in ('without', 'with'):
            if phase == 'with':
                subprocess.run(['git', '-C', wt, 'apply', d + '/patch.diff'], check=True)
            r = subprocess.run(cmd, cwd=wt, env=env, capture_output=True, text=True, timeout=600)
            res[phase] = 'PASS' if r.returncode == 0 else 'FAIL'
        res['command'] = ' '.join(cmd) + ' (in ' + pkg + ')'
    elif os.path.exists(d + '/run.sh'):
        for phase in ('without', 'with'):
            if phase == 'with':
                subprocess.run(['git', '-C', wt, 'apply', d + '/patch.diff'], check=True)
            r = subprocess.run(['sh', d + '/run.sh', wt], capture_output=True, text=True, timeout=600)
            res[phase] = 'PASS' if r.returncode == 0 else 'FAIL'
        res['command'] = 'run.sh <worktree>'
    elif os.path.exists(d + '/main.go'):
        os.makedirs(wt + '/cmd/demo-x', exist_ok=True)
        shutil.copy(d + '/main.go', wt + '/cmd/demo-x/main.go')
        for phase in ('without', 'with'):
            if phase == 'with':
                subprocess.run(['git', '-C', wt, 'apply', d + '/patch.diff'], check=True)
            r = subprocess.run(['go', 'run', './cmd/demo-x'], cwd=wt, env=env, capture_output=True, text=True, timeout=600)
            res[phase] = 'PASS' if r.returncode == 0 else 'FAIL'
        res['command'] = 'go run ./cmd/demo-x (main.go copied there)'
finally:
    subprocess.run(['git', '-C', '/repo', 'worktree', 'remove', '--force', wt], capture_output=True)
ok = res.get('without') == 'PASS' and res.get('with') == 'FAIL'
print(sid, res, 'CONFIRMED' if ok else 'NOT-CONFIRMED')
mp = d + '/meta.json'
m = json.load(open(mp))
m['demonstration'] = dict(res, confirmed=ok)
json.dump(m, open(mp, 'w'), indent=1)
