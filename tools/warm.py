#!/usr/bin/env python3
"""Builds every registered harness once so later checks hit a warm GOCACHE."""
import os, sys
VERIF = os.path.dirname(os.path.dirname(os.path.abspath(__file__)))
sys.path.insert(0, os.path.join(VERIF, 'pylib'))
import vlib, registry
rc = 0
for pid, spec in registry.CHECKS.items():
    ctx = vlib.Ctx(pid, 'quick')
    try:
        for part in spec['parts']:
            if hasattr(part, 'warm'):
                part.warm(ctx)
    except vlib.ToolError as e:
        print('setup: warming %s failed: %s' % (pid, e))
        rc = 1
    finally:
        ctx.cleanup()
sys.exit(rc)
